// zfacts — fact extractor for the /verif static analyses.
//
// A rustc driver (rustc_private) used as RUSTC_WORKSPACE_WRAPPER under
// `cargo +nightly check`.  After analysis of each workspace crate it writes ONE JSON file
// (one write per process) into $ZFACTS_OUT describing items (ADTs, consts, fn signatures,
// impls) and the MIR of every body (fns, closures, promoteds) in a compact list encoding.
// It never runs the analysed code; it only reads rustc's own HIR/MIR.
#![feature(rustc_private)]
#![allow(clippy::all)]

extern crate rustc_abi;
extern crate rustc_data_structures;
extern crate rustc_driver;
extern crate rustc_hir;
extern crate rustc_index;
extern crate rustc_interface;
extern crate rustc_middle;
extern crate rustc_session;
extern crate rustc_span;

use rustc_driver::Compilation;
use rustc_hir::def::{CtorKind, DefKind};
use rustc_hir::def_id::{DefId, LocalDefId};
use rustc_middle::mir::{
    self, AggregateKind, AssertKind, BasicBlock, Body, Operand, Place, ProjectionElem, Rvalue,
    StatementKind, TerminatorKind, UnwindAction,
};
use rustc_middle::ty::print::PrintTraitRefExt;
use rustc_middle::ty::{self, Instance, InstanceKind, Ty, TyCtxt, TypingEnv};
use rustc_span::{ExpnKind, Span};
use std::collections::HashMap;
use std::fmt::Write as _;

// ---------------------------------------------------------------- tiny JSON value

enum J {
    Null,
    B(bool),
    I(i128),
    U(u128),
    S(String),
    A(Vec<J>),
    O(Vec<(&'static str, J)>),
}

fn esc(s: &str, out: &mut String) {
    out.push('"');
    for c in s.chars() {
        match c {
            '"' => out.push_str("\\\""),
            '\\' => out.push_str("\\\\"),
            '\n' => out.push_str("\\n"),
            '\r' => out.push_str("\\r"),
            '\t' => out.push_str("\\t"),
            c if (c as u32) < 0x20 => {
                let _ = write!(out, "\\u{:04x}", c as u32);
            }
            c => out.push(c),
        }
    }
    out.push('"');
}

impl J {
    fn s<T: Into<String>>(t: T) -> J {
        J::S(t.into())
    }
    fn write(&self, out: &mut String) {
        match self {
            J::Null => out.push_str("null"),
            J::B(b) => out.push_str(if *b { "true" } else { "false" }),
            J::I(i) => {
                let _ = write!(out, "{}", i);
            }
            J::U(i) => {
                let _ = write!(out, "{}", i);
            }
            J::S(s) => esc(s, out),
            J::A(v) => {
                out.push('[');
                for (i, x) in v.iter().enumerate() {
                    if i > 0 {
                        out.push(',');
                    }
                    x.write(out);
                }
                out.push(']');
            }
            J::O(v) => {
                out.push('{');
                for (i, (k, x)) in v.iter().enumerate() {
                    if i > 0 {
                        out.push(',');
                    }
                    esc(k, out);
                    out.push(':');
                    x.write(out);
                }
                out.push('}');
            }
        }
    }
}

// ---------------------------------------------------------------- interning tables

#[derive(Default)]
struct Intern {
    map: HashMap<String, usize>,
    list: Vec<String>,
}
impl Intern {
    fn get(&mut self, s: String) -> usize {
        if let Some(&i) = self.map.get(&s) {
            return i;
        }
        let i = self.list.len();
        self.map.insert(s.clone(), i);
        self.list.push(s);
        i
    }
    fn to_json(&self) -> J {
        J::A(self.list.iter().map(|s| J::S(s.clone())).collect())
    }
}

struct Cx<'tcx> {
    tcx: TyCtxt<'tcx>,
    types: Intern,
    spans: Intern,
    names: Intern, // def paths (pretty + uid)
}

impl<'tcx> Cx<'tcx> {
    fn uid(&self, did: DefId) -> String {
        format!(
            "{}{}",
            self.tcx.crate_name(did.krate),
            self.tcx.def_path(did).to_string_no_crate_verbose()
        )
    }
    fn pretty(&self, did: DefId) -> String {
        rustc_middle::ty::print::with_resolve_crate_name!(
            rustc_middle::ty::print::with_no_trimmed_paths!(self.tcx.def_path_str(did))
        )
    }
    fn pretty_args(&self, did: DefId, args: ty::GenericArgsRef<'tcx>) -> String {
        rustc_middle::ty::print::with_resolve_crate_name!(
            rustc_middle::ty::print::with_no_trimmed_paths!(
                self.tcx.def_path_str_with_args(did, args)
            )
        )
    }
    fn ty_str(&self, t: Ty<'tcx>) -> String {
        rustc_middle::ty::print::with_resolve_crate_name!(
            rustc_middle::ty::print::with_no_trimmed_paths!(t.to_string())
        )
    }
    fn ty(&mut self, t: Ty<'tcx>) -> J {
        let s = self.ty_str(t);
        J::I(self.types.get(s) as i128)
    }
    fn name(&mut self, s: String) -> J {
        J::I(self.names.get(s) as i128)
    }
    fn uidj(&mut self, did: DefId) -> J {
        let s = self.uid(did);
        self.name(s)
    }
    fn prettyj(&mut self, did: DefId) -> J {
        let s = self.pretty(did);
        self.name(s)
    }

    // span -> interned "file:line:col:endline|macro<macro<..."; for expansion spans the
    // location is the outermost call site (user code) and the macro backtrace is kept.
    fn span(&mut self, sp: Span) -> J {
        let sm = self.tcx.sess.source_map();
        let mut macros = String::new();
        if sp.from_expansion() {
            let mut first = true;
            for ed in sp.macro_backtrace() {
                let n = match ed.kind {
                    ExpnKind::Macro(_, name) => name.to_string(),
                    ExpnKind::Desugaring(d) => format!("desugar:{:?}", d),
                    ExpnKind::AstPass(p) => format!("astpass:{:?}", p),
                    ExpnKind::Root => "root".to_string(),
                };
                if !first {
                    macros.push('<');
                }
                first = false;
                macros.push_str(&n);
            }
            if macros.is_empty() {
                // desugarings are not in macro_backtrace
                let ed = sp.ctxt().outer_expn_data();
                macros = match ed.kind {
                    ExpnKind::Desugaring(d) => format!("desugar:{:?}", d),
                    ExpnKind::AstPass(p) => format!("astpass:{:?}", p),
                    ExpnKind::Macro(_, name) => name.to_string(),
                    ExpnKind::Root => "root".to_string(),
                };
            }
        }
        let cs = sp.source_callsite();
        let lo = sm.lookup_char_pos(cs.lo());
        let hi = sm.lookup_char_pos(cs.hi());
        let file = match &lo.file.name {
            rustc_span::FileName::Real(r) => match r.local_path() {
                Some(p) => p.to_string_lossy().to_string(),
                None => format!("{:?}", r),
            },
            other => format!("{:?}", other),
        };
        let s = format!("{}:{}:{}:{}|{}", file, lo.line, lo.col.0 + 1, hi.line, macros);
        J::I(self.spans.get(s) as i128)
    }
}

// ---------------------------------------------------------------- MIR encoding

fn place_json<'tcx>(cx: &mut Cx<'tcx>, body: &Body<'tcx>, place: Place<'tcx>) -> Vec<J> {
    let tcx = cx.tcx;
    let mut out = vec![J::I(place.local.as_u32() as i128)];
    let mut pty = mir::PlaceTy::from_ty(body.local_decls[place.local].ty);
    for elem in place.projection.iter() {
        match elem {
            ProjectionElem::Deref => out.push(J::s("*")),
            ProjectionElem::Field(f, _) => {
                let name = match pty.ty.kind() {
                    ty::Adt(adt, _) => {
                        let v = pty.variant_index.unwrap_or(rustc_abi::FIRST_VARIANT);
                        if adt.is_enum() || adt.is_struct() || adt.is_union() {
                            let vd = adt.variant(v);
                            if f.index() < vd.fields.len() {
                                format!(".{}", vd.fields[f].name)
                            } else {
                                format!(".{}", f.index())
                            }
                        } else {
                            format!(".{}", f.index())
                        }
                    }
                    _ => format!(".{}", f.index()),
                };
                out.push(J::S(name));
            }
            ProjectionElem::Downcast(_, vidx) => {
                let name = match pty.ty.kind() {
                    ty::Adt(adt, _) if adt.is_enum() => {
                        format!("as {}", adt.variant(vidx).name)
                    }
                    _ => format!("as #{}", vidx.as_u32()),
                };
                out.push(J::S(name));
            }
            ProjectionElem::Index(l) => out.push(J::S(format!("[_{}]", l.as_u32()))),
            ProjectionElem::ConstantIndex { offset, min_length, from_end } => out.push(J::S(
                format!("[{}{} of {}]", if from_end { "-" } else { "" }, offset, min_length),
            )),
            ProjectionElem::Subslice { from, to, from_end } => {
                out.push(J::S(format!("[{}..{}{}]", from, if from_end { "-" } else { "" }, to)))
            }
            ProjectionElem::OpaqueCast(_) | ProjectionElem::UnwrapUnsafeBinder(_) => {}
        }
        pty = pty.projection_ty(tcx, elem);
    }
    out
}

fn scalar_int_json<'tcx>(cx: &Cx<'tcx>, ty: Ty<'tcx>, si: ty::ScalarInt) -> J {
    let _ = cx;
    let size = si.size();
    match ty.kind() {
        ty::Int(_) => J::I(si.to_int(size)),
        ty::Uint(_) => J::U(si.to_uint(size)),
        ty::Bool => J::I(if si.try_to_bool().unwrap_or(false) { 1 } else { 0 }),
        ty::Char => J::U(si.to_uint(size)),
        _ => J::U(si.to_bits(size)),
    }
}

fn const_json<'tcx>(
    cx: &mut Cx<'tcx>,
    tenv: TypingEnv<'tcx>,
    c: &mir::ConstOperand<'tcx>,
) -> J {
    let tcx = cx.tcx;
    let ty = c.const_.ty();
    let tyj = cx.ty(ty);
    let mut fields: Vec<(&'static str, J)> = vec![];
    // function items
    if let ty::FnDef(did, args) = ty.kind() {
        let dk = tcx.def_kind(*did);
        fields.push(("fn", cx.uidj(*did)));
        fields.push(("p", cx.prettyj(*did)));
        if matches!(dk, DefKind::Ctor(..)) {
            fields.push(("ctor", J::B(true)));
            // parent ADT of the constructor
            let parent = tcx.parent(*did);
            let adt = if matches!(tcx.def_kind(parent), DefKind::Variant) {
                tcx.parent(parent)
            } else {
                parent
            };
            fields.push(("adt", cx.prettyj(adt)));
        }
        let mut cl = vec![];
        for a in args.iter() {
            for t in a.walk() {
                if let Some(t) = t.as_type() {
                    if let ty::Closure(cd, _) = t.kind() {
                        cl.push(cx.uidj(*cd));
                    }
                }
            }
        }
        if !cl.is_empty() {
            fields.push(("closures", J::A(cl)));
        }
        return J::A(vec![J::s("K"), tyj, J::O(fields)]);
    }
    if let mir::Const::Unevaluated(u, _) = c.const_ {
        if let Some(p) = u.promoted {
            fields.push(("promoted", J::I(p.as_u32() as i128)));
            fields.push(("of", cx.uidj(u.def)));
        } else {
            fields.push(("def", cx.prettyj(u.def)));
        }
    }
    // value
    let val = match c.const_.eval(tcx, tenv, c.span) {
        Ok(v) => Some(v),
        Err(_) => None,
    };
    if let Some(v) = val {
        match v {
            mir::ConstValue::Scalar(mir::interpret::Scalar::Int(si)) => {
                fields.push(("v", scalar_int_json(cx, ty, si)));
            }
            mir::ConstValue::ZeroSized => {
                fields.push(("zst", J::B(true)));
            }
            mir::ConstValue::Slice { .. } => {
                if let Some(bytes) = v.try_get_slice_bytes_for_diagnostics(tcx) {
                    if bytes.len() <= 65536 {
                        match std::str::from_utf8(bytes) {
                            Ok(s) if matches!(ty.kind(), ty::Ref(_, t, _) if t.is_str()) => {
                                fields.push(("str", J::s(s)))
                            }
                            _ => fields.push((
                                "bytes",
                                J::A(bytes.iter().map(|b| J::I(*b as i128)).collect()),
                            )),
                        }
                    }
                }
            }
            _ => {}
        }
    }
    if fields.is_empty() {
        fields.push(("txt", J::s(format!("{}", c.const_))));
    }
    J::A(vec![J::s("K"), tyj, J::O(fields)])
}

fn operand_json<'tcx>(
    cx: &mut Cx<'tcx>,
    tenv: TypingEnv<'tcx>,
    body: &Body<'tcx>,
    op: &Operand<'tcx>,
) -> J {
    match op {
        Operand::Copy(p) => {
            let mut v = vec![J::s("C")];
            v.extend(place_json(cx, body, *p));
            J::A(v)
        }
        Operand::Move(p) => {
            let mut v = vec![J::s("M")];
            v.extend(place_json(cx, body, *p));
            J::A(v)
        }
        Operand::Constant(c) => const_json(cx, tenv, c),
        Operand::RuntimeChecks(_) => J::A(vec![J::s("R")]),
    }
}

fn rvalue_json<'tcx>(
    cx: &mut Cx<'tcx>,
    tenv: TypingEnv<'tcx>,
    body: &Body<'tcx>,
    rv: &Rvalue<'tcx>,
) -> J {
    let tcx = cx.tcx;
    match rv {
        Rvalue::Use(op, _) => J::A(vec![J::s("use"), operand_json(cx, tenv, body, op)]),
        Rvalue::Repeat(op, n) => J::A(vec![
            J::s("repeat"),
            operand_json(cx, tenv, body, op),
            J::s(format!("{}", n)),
        ]),
        Rvalue::Ref(_, bk, p) => {
            let k = match bk {
                mir::BorrowKind::Shared => "shr",
                mir::BorrowKind::Fake(_) => "fake",
                mir::BorrowKind::Mut { .. } => "mut",
            };
            J::A(vec![J::s("ref"), J::s(k), J::A(place_json(cx, body, *p))])
        }
        Rvalue::ThreadLocalRef(d) => J::A(vec![J::s("tls"), cx.prettyj(*d)]),
        Rvalue::RawPtr(k, p) => {
            J::A(vec![J::s("raw"), J::s(format!("{:?}", k)), J::A(place_json(cx, body, *p))])
        }
        Rvalue::Cast(kind, op, t) => J::A(vec![
            J::s("cast"),
            J::s(format!("{:?}", kind)),
            operand_json(cx, tenv, body, op),
            cx.ty(*t),
        ]),
        Rvalue::BinaryOp(op, ab) => J::A(vec![
            J::s("bin"),
            J::s(format!("{:?}", op)),
            operand_json(cx, tenv, body, &ab.0),
            operand_json(cx, tenv, body, &ab.1),
        ]),
        Rvalue::UnaryOp(op, a) => J::A(vec![
            J::s("un"),
            J::s(format!("{:?}", op)),
            operand_json(cx, tenv, body, a),
        ]),
        Rvalue::Discriminant(p) => J::A(vec![J::s("disc"), J::A(place_json(cx, body, *p))]),
        Rvalue::Aggregate(kind, ops) => {
            let k = match &**kind {
                AggregateKind::Array(_) => J::s("array"),
                AggregateKind::Tuple => J::s("tuple"),
                AggregateKind::Adt(did, vidx, _, _, active) => {
                    let adt = tcx.adt_def(*did);
                    let vd = adt.variant(*vidx);
                    let fnames: Vec<J> = match active {
                        Some(f) => vec![J::s(vd.fields[*f].name.to_string())],
                        None => vd.fields.iter().map(|f| J::s(f.name.to_string())).collect(),
                    };
                    J::A(vec![
                        J::s("adt"),
                        cx.prettyj(*did),
                        J::s(vd.name.to_string()),
                        J::A(fnames),
                    ])
                }
                AggregateKind::Closure(did, _) => J::A(vec![J::s("closure"), cx.uidj(*did)]),
                AggregateKind::Coroutine(did, _) => J::A(vec![J::s("coroutine"), cx.uidj(*did)]),
                AggregateKind::CoroutineClosure(did, _) => {
                    J::A(vec![J::s("coroutine_closure"), cx.uidj(*did)])
                }
                AggregateKind::RawPtr(..) => J::s("rawptr"),
            };
            let o: Vec<J> = ops.iter().map(|o| operand_json(cx, tenv, body, o)).collect();
            J::A(vec![J::s("agg"), k, J::A(o)])
        }
        Rvalue::CopyForDeref(p) => {
            let mut v = vec![J::s("C")];
            v.extend(place_json(cx, body, *p));
            J::A(vec![J::s("use"), J::A(v)])
        }
        Rvalue::WrapUnsafeBinder(op, _) => {
            J::A(vec![J::s("use"), operand_json(cx, tenv, body, op)])
        }
    }
}

fn bbj(b: BasicBlock) -> J {
    J::I(b.as_u32() as i128)
}

fn unwind_json(u: &UnwindAction) -> J {
    match u {
        UnwindAction::Cleanup(b) => bbj(*b),
        _ => J::Null,
    }
}

fn callee_json<'tcx>(
    cx: &mut Cx<'tcx>,
    tenv: TypingEnv<'tcx>,
    body: &Body<'tcx>,
    func: &Operand<'tcx>,
) -> J {
    let tcx = cx.tcx;
    let fty = func.ty(&body.local_decls, tcx);
    match fty.kind() {
        ty::FnDef(did, args) => {
            let mut f: Vec<(&'static str, J)> = vec![];
            f.push(("id", cx.uidj(*did)));
            f.push(("p", cx.prettyj(*did)));
            let full = cx.pretty_args(*did, args);
            f.push(("full", cx.name(full)));
            // closures among generic args (links closure bodies to combinators)
            let mut cl = vec![];
            for a in args.iter() {
                for t in a.walk() {
                    if let Some(t) = t.as_type() {
                        if let ty::Closure(cd, _) = t.kind() {
                            cl.push(cx.uidj(*cd));
                        }
                    }
                }
            }
            if !cl.is_empty() {
                f.push(("closures", J::A(cl)));
            }
            // self type of a trait-method call (first generic arg) for CHA
            if let Some(tr) = tcx.trait_of_assoc(*did) {
                f.push(("trait", cx.prettyj(tr)));
                if let Some(st) = args.types().next() {
                    f.push(("self", cx.ty(st)));
                }
            }
            let dk = tcx.def_kind(*did);
            if matches!(dk, DefKind::Fn | DefKind::AssocFn) {
                match Instance::try_resolve(tcx, tenv, *did, args) {
                    Ok(Some(inst)) => {
                        let kind = match inst.def {
                            InstanceKind::Item(_) => "item",
                            InstanceKind::Intrinsic(_) => "intrinsic",
                            InstanceKind::Virtual(..) => "virtual",
                            InstanceKind::ClosureOnceShim { .. } => "closure_once",
                            InstanceKind::FnPtrShim(..) => "fnptr",
                            InstanceKind::DropGlue(..) => "dropglue",
                            InstanceKind::CloneShim(..) => "cloneshim",
                            InstanceKind::ReifyShim(..) => "reify",
                            InstanceKind::VTableShim(..) => "vtableshim",
                            _ => "other",
                        };
                        let rd = inst.def_id();
                        f.push(("rk", J::s(kind)));
                        if rd != *did || !matches!(inst.def, InstanceKind::Item(_)) {
                            f.push(("rid", cx.uidj(rd)));
                            f.push(("rp", cx.prettyj(rd)));
                        }
                        // a trait method that resolves to itself with a type-param receiver
                        // is not really resolved: mark it
                        if let InstanceKind::Item(d) = inst.def {
                            if d == *did && tcx.trait_of_assoc(*did).is_some() {
                                // default method body or unresolved; tell them apart
                                if !tcx.is_mir_available(d) {
                                    f.push(("unres", J::B(true)));
                                }
                            }
                        }
                    }
                    _ => {
                        f.push(("unres", J::B(true)));
                    }
                }
            } else if matches!(dk, DefKind::Ctor(..)) {
                f.push(("ctor", J::B(true)));
            }
            J::O(f)
        }
        _ => {
            let t = cx.ty(fty);
            J::O(vec![("indirect", operand_json(cx, tenv, body, func)), ("ty", t)])
        }
    }
}

fn assert_json<'tcx>(
    cx: &mut Cx<'tcx>,
    tenv: TypingEnv<'tcx>,
    body: &Body<'tcx>,
    msg: &AssertKind<Operand<'tcx>>,
) -> J {
    match msg {
        AssertKind::BoundsCheck { len, index } => J::A(vec![
            J::s("BoundsCheck"),
            operand_json(cx, tenv, body, len),
            operand_json(cx, tenv, body, index),
        ]),
        AssertKind::Overflow(op, a, b) => J::A(vec![
            J::s("Overflow"),
            J::s(format!("{:?}", op)),
            operand_json(cx, tenv, body, a),
            operand_json(cx, tenv, body, b),
        ]),
        AssertKind::OverflowNeg(a) => {
            J::A(vec![J::s("OverflowNeg"), operand_json(cx, tenv, body, a)])
        }
        AssertKind::DivisionByZero(a) => {
            J::A(vec![J::s("DivisionByZero"), operand_json(cx, tenv, body, a)])
        }
        AssertKind::RemainderByZero(a) => {
            J::A(vec![J::s("RemainderByZero"), operand_json(cx, tenv, body, a)])
        }
        other => J::A(vec![J::s(format!("{:?}", std::mem::discriminant(other))), J::s("other")]),
    }
}

fn body_json<'tcx>(cx: &mut Cx<'tcx>, owner: DefId, body: &Body<'tcx>) -> J {
    let tcx = cx.tcx;
    let tenv = TypingEnv::post_analysis(tcx, owner);
    // locals
    let mut names: HashMap<u32, String> = HashMap::new();
    for vdi in body.var_debug_info.iter() {
        if let mir::VarDebugInfoContents::Place(p) = vdi.value {
            if p.projection.is_empty() {
                names.entry(p.local.as_u32()).or_insert(vdi.name.to_string());
            }
        }
    }
    let mut locals = vec![];
    for (l, d) in body.local_decls.iter_enumerated() {
        let t = cx.ty(d.ty);
        let n = names.get(&l.as_u32()).cloned();
        locals.push(J::A(vec![t, n.map(J::S).unwrap_or(J::Null)]));
    }
    // captured upvar debug names (closures): name -> place
    let mut upvars = vec![];
    for vdi in body.var_debug_info.iter() {
        if let mir::VarDebugInfoContents::Place(p) = vdi.value {
            if !p.projection.is_empty() {
                upvars.push(J::A(vec![J::s(vdi.name.to_string()), J::A(place_json(cx, body, p))]));
            }
        }
    }
    let mut blocks = vec![];
    for (_bb, data) in body.basic_blocks.iter_enumerated() {
        let mut stmts = vec![];
        for st in data.statements.iter() {
            match &st.kind {
                StatementKind::Assign(b) => {
                    let (place, rv) = &**b;
                    let dty = place.ty(&body.local_decls, tcx).ty;
                    let p = place_json(cx, body, *place);
                    let r = rvalue_json(cx, tenv, body, rv);
                    let s = cx.span(st.source_info.span);
                    let t = cx.ty(dty);
                    stmts.push(J::A(vec![J::s("="), J::A(p), r, s, t]));
                }
                StatementKind::SetDiscriminant { place, variant_index } => {
                    let pt = place.ty(&body.local_decls, tcx).ty;
                    let vn = match pt.kind() {
                        ty::Adt(adt, _) if adt.is_enum() => {
                            adt.variant(*variant_index).name.to_string()
                        }
                        _ => format!("#{}", variant_index.as_u32()),
                    };
                    let p = place_json(cx, body, **place);
                    let s = cx.span(st.source_info.span);
                    let t = cx.ty(pt);
                    stmts.push(J::A(vec![J::s("setdisc"), J::A(p), J::s(vn), s, t]));
                }
                StatementKind::Intrinsic(i) => {
                    let s = cx.span(st.source_info.span);
                    stmts.push(J::A(vec![J::s("intrinsic"), J::s(format!("{:?}", i)), s]));
                }
                _ => {}
            }
        }
        let term = data.terminator();
        let sp = cx.span(term.source_info.span);
        let t = match &term.kind {
            TerminatorKind::Goto { target } => J::A(vec![J::s("goto"), bbj(*target)]),
            TerminatorKind::SwitchInt { discr, targets } => {
                let d = operand_json(cx, tenv, body, discr);
                let dty = discr.ty(&body.local_decls, tcx);
                let mut arms = vec![];
                for (v, b) in targets.iter() {
                    // signed interpretation where relevant
                    let vj = match dty.kind() {
                        ty::Int(it) => {
                            let bits = it.bit_width().unwrap_or(64) as u32;
                            let shift = 128 - bits;
                            J::I(((v << shift) as i128) >> shift)
                        }
                        _ => J::U(v),
                    };
                    arms.push(J::A(vec![vj, bbj(b)]));
                }
                J::A(vec![J::s("switch"), d, J::A(arms), bbj(targets.otherwise()), sp])
            }
            TerminatorKind::UnwindResume => J::A(vec![J::s("resume")]),
            TerminatorKind::UnwindTerminate(_) => J::A(vec![J::s("terminate")]),
            TerminatorKind::Return => J::A(vec![J::s("return"), sp]),
            TerminatorKind::Unreachable => J::A(vec![J::s("unreachable")]),
            TerminatorKind::Drop { place, target, unwind, .. } => J::A(vec![
                J::s("drop"),
                J::A(place_json(cx, body, *place)),
                bbj(*target),
                unwind_json(unwind),
                sp,
            ]),
            TerminatorKind::Call { func, args, destination, target, unwind, fn_span, .. } => {
                let c = callee_json(cx, tenv, body, func);
                let a: Vec<J> =
                    args.iter().map(|a| operand_json(cx, tenv, body, &a.node)).collect();
                let d = J::A(place_json(cx, body, *destination));
                let fs = cx.span(*fn_span);
                J::A(vec![
                    J::s("call"),
                    c,
                    J::A(a),
                    d,
                    target.map(bbj).unwrap_or(J::Null),
                    unwind_json(unwind),
                    sp,
                    fs,
                ])
            }
            TerminatorKind::TailCall { func, args, .. } => {
                let c = callee_json(cx, tenv, body, func);
                let a: Vec<J> =
                    args.iter().map(|a| operand_json(cx, tenv, body, &a.node)).collect();
                J::A(vec![J::s("tailcall"), c, J::A(a), sp])
            }
            TerminatorKind::Assert { cond, expected, msg, target, unwind } => J::A(vec![
                J::s("assert"),
                operand_json(cx, tenv, body, cond),
                J::B(*expected),
                assert_json(cx, tenv, body, msg),
                bbj(*target),
                unwind_json(unwind),
                sp,
            ]),
            TerminatorKind::FalseEdge { real_target, .. } => {
                J::A(vec![J::s("goto"), bbj(*real_target)])
            }
            TerminatorKind::FalseUnwind { real_target, .. } => {
                J::A(vec![J::s("goto"), bbj(*real_target)])
            }
            TerminatorKind::Yield { resume, .. } => J::A(vec![J::s("yield"), bbj(*resume)]),
            TerminatorKind::CoroutineDrop => J::A(vec![J::s("coroutine_drop")]),
            TerminatorKind::InlineAsm { .. } => J::A(vec![J::s("asm")]),
        };
        blocks.push(J::A(vec![J::A(stmts), t, J::B(data.is_cleanup)]));
    }
    J::O(vec![
        ("argc", J::I(body.arg_count as i128)),
        ("locals", J::A(locals)),
        ("upvars", J::A(upvars)),
        ("blocks", J::A(blocks)),
    ])
}

// ---------------------------------------------------------------- items

fn vis_json<'tcx>(cx: &mut Cx<'tcx>, did: DefId) -> J {
    match cx.tcx.visibility(did) {
        ty::Visibility::Public => J::s("pub"),
        ty::Visibility::Restricted(m) => {
            if m.is_crate_root() {
                J::s("crate")
            } else {
                J::S(format!("in:{}", cx.pretty(m)))
            }
        }
    }
}

fn dump<'tcx>(tcx: TyCtxt<'tcx>) {
    let outdir = match std::env::var("ZFACTS_OUT") {
        Ok(d) => d,
        Err(_) => return,
    };
    let crate_name = tcx.crate_name(rustc_hir::def_id::LOCAL_CRATE).to_string();
    if crate_name.starts_with("build_script") {
        return;
    }
    let mut cx = Cx { tcx, types: Intern::default(), spans: Intern::default(), names: Intern::default() };
    let effvis = tcx.effective_visibilities(());

    let mut adts = vec![];
    let mut consts = vec![];
    let mut fns = vec![];
    let mut impls = vec![];
    let mut traits = vec![];

    let items = tcx.hir_crate_items(());
    for ldid in items.definitions() {
        let did = ldid.to_def_id();
        match tcx.def_kind(did) {
            DefKind::Struct | DefKind::Enum | DefKind::Union => {
                let adt = tcx.adt_def(did);
                let mut variants = vec![];
                for v in adt.variants().iter() {
                    let mut fields = vec![];
                    for f in v.fields.iter() {
                        let fty = tcx.type_of(f.did).instantiate_identity().skip_norm_wip();
                        let t = cx.ty(fty);
                        let vis = vis_json(&mut cx, f.did);
                        fields.push(J::A(vec![J::s(f.name.to_string()), vis, t]));
                    }
                    let ctor = match v.ctor_kind() {
                        Some(CtorKind::Fn) => "fn",
                        Some(CtorKind::Const) => "const",
                        None => "struct",
                    };
                    variants.push(J::A(vec![J::s(v.name.to_string()), J::s(ctor), J::A(fields)]));
                }
                let sp = cx.span(tcx.def_span(did));
                let vis = vis_json(&mut cx, did);
                let p = cx.prettyj(did);
                adts.push(J::O(vec![
                    ("p", p),
                    ("kind", J::s(format!("{:?}", tcx.def_kind(did)))),
                    ("vis", vis),
                    ("exported", J::B(effvis.is_reachable(ldid))),
                    ("span", sp),
                    ("variants", J::A(variants)),
                ]));
            }
            DefKind::Const { .. } | DefKind::AssocConst { .. } | DefKind::Static { .. } => {
                let ty = tcx.type_of(did).instantiate_identity().skip_norm_wip();
                let mut f: Vec<(&'static str, J)> = vec![];
                f.push(("p", cx.prettyj(did)));
                f.push(("ty", cx.ty(ty)));
                f.push(("span", cx.span(tcx.def_span(did))));
                let has_body = tcx.hir_maybe_body_owned_by(ldid).is_some();
                if has_body
                    && !matches!(tcx.def_kind(did), DefKind::Static { .. })
                    && tcx.generics_of(did).is_empty()
                    && !tcx.generics_of(did).has_self
                    && tcx.generics_of(did).parent_count == 0
                {
                    if let Ok(v) = tcx.const_eval_poly(did) {
                        match v {
                            mir::ConstValue::Scalar(mir::interpret::Scalar::Int(si)) => {
                                f.push(("v", scalar_int_json(&cx, ty, si)));
                            }
                            mir::ConstValue::Slice { .. } | mir::ConstValue::Indirect { .. } => {
                                let is_slice_ref = matches!(ty.kind(), ty::Ref(_, t, _) if t.is_str() || t.is_slice());
                                if is_slice_ref {
                                    if let Some(bytes) = v.try_get_slice_bytes_for_diagnostics(tcx)
                                    {
                                        if bytes.len() <= 65536 {
                                            match std::str::from_utf8(bytes) {
                                                Ok(s) if matches!(ty.kind(), ty::Ref(_, t, _) if t.is_str()) => {
                                                    f.push(("str", J::s(s)))
                                                }
                                                _ => f.push((
                                                    "bytes",
                                                    J::A(bytes
                                                        .iter()
                                                        .map(|b| J::I(*b as i128))
                                                        .collect()),
                                                )),
                                            }
                                        }
                                    }
                                }
                            }
                            _ => {}
                        }
                    }
                }
                consts.push(J::O(f));
            }
            DefKind::Trait => {
                let mut methods = vec![];
                for ai in tcx.associated_items(did).in_definition_order() {
                    if ai.is_fn() {
                        methods.push(J::A(vec![
                            J::s(ai.name().to_string()),
                            cx.uidj(ai.def_id),
                            J::B(ai.defaultness(tcx).has_value()),
                        ]));
                    }
                }
                let p = cx.prettyj(did);
                traits.push(J::O(vec![("p", p), ("methods", J::A(methods))]));
            }
            DefKind::Impl { of_trait } => {
                let self_ty = tcx.type_of(did).instantiate_identity().skip_norm_wip();
                let mut f: Vec<(&'static str, J)> = vec![];
                f.push(("id", cx.uidj(did)));
                f.push(("self", cx.ty(self_ty)));
                if of_trait {
                    let tr = tcx.impl_trait_ref(did).instantiate_identity().skip_norm_wip();
                    f.push(("trait", cx.prettyj(tr.def_id)));
                    let full = rustc_middle::ty::print::with_resolve_crate_name!(
                        rustc_middle::ty::print::with_no_trimmed_paths!(format!("{}", tr.print_only_trait_path()))
                    );
                    f.push(("trait_full", J::S(full)));
                }
                let mut methods = vec![];
                for ai in tcx.associated_items(did).in_definition_order() {
                    if ai.is_fn() {
                        let tm = ai.trait_item_def_id();
                        methods.push(J::A(vec![
                            J::s(ai.name().to_string()),
                            cx.uidj(ai.def_id),
                            tm.map(|d| cx.uidj(d)).unwrap_or(J::Null),
                        ]));
                    }
                }
                f.push(("methods", J::A(methods)));
                f.push(("span", cx.span(tcx.def_span(did))));
                impls.push(J::O(f));
            }
            _ => {}
        }
    }

    // bodies
    let mut nbodies = 0usize;
    for ldid in tcx.hir_body_owners() {
        let did = ldid.to_def_id();
        let dk = tcx.def_kind(did);
        let is_fn_like = matches!(dk, DefKind::Fn | DefKind::AssocFn | DefKind::Closure);
        let is_const_like = matches!(
            dk,
            DefKind::Const { .. }
                | DefKind::AssocConst { .. }
                | DefKind::Static { .. }
                | DefKind::AnonConst
                | DefKind::InlineConst
        );
        if !is_fn_like && !is_const_like {
            continue;
        }
        if is_fn_like && !tcx.is_mir_available(did) {
            continue;
        }
        let is_const_fn = is_fn_like && tcx.is_const_fn(did);
        let body: &Body<'tcx> =
            if is_fn_like { tcx.optimized_mir(did) } else { tcx.mir_for_ctfe(did) };
        let mut f: Vec<(&'static str, J)> = vec![];
        f.push(("id", cx.uidj(did)));
        f.push(("p", cx.prettyj(did)));
        f.push(("kind", J::s(format!("{:?}", dk))));
        f.push(("span", cx.span(tcx.def_span(did))));
        f.push(("bodyspan", cx.span(body.span)));
        f.push(("constfn", J::B(is_const_fn)));
        if matches!(dk, DefKind::Fn | DefKind::AssocFn) {
            f.push(("vis", vis_json(&mut cx, did)));
            f.push(("exported", J::B(effvis.is_reachable(ldid))));
            let sig = tcx.fn_sig(did).instantiate_identity().skip_norm_wip().skip_binder();
            let ins: Vec<J> = sig.inputs().iter().map(|t| cx.ty(*t)).collect();
            f.push(("inputs", J::A(ins)));
            f.push(("output", cx.ty(sig.output())));
            let an: Vec<J> = tcx
                .fn_arg_idents(did)
                .iter()
                .map(|i| match i {
                    Some(i) => J::s(i.name.to_string()),
                    None => J::Null,
                })
                .collect();
            f.push(("argnames", J::A(an)));
            if let Some(ai) = tcx.opt_associated_item(did) {
                let cont = ai.container_id(tcx);
                if matches!(tcx.def_kind(cont), DefKind::Impl { .. }) {
                    f.push(("impl", cx.uidj(cont)));
                    let st = tcx.type_of(cont).instantiate_identity().skip_norm_wip();
                    f.push(("self", cx.ty(st)));
                    if let Some(tm) = ai.trait_item_def_id() {
                        f.push(("trait_method", cx.uidj(tm)));
                        let tr = tcx.parent(tm);
                        f.push(("trait", cx.prettyj(tr)));
                    }
                } else {
                    // default method in a trait
                    f.push(("in_trait", cx.prettyj(cont)));
                }
            }
            // where-clauses / bounds as text (for transaction-witness detection)
            let preds = tcx.predicates_of(did).instantiate_identity(tcx);
            let ps: Vec<J> = preds
                .predicates
                .iter()
                .map(|p| {
                    J::S(rustc_middle::ty::print::with_resolve_crate_name!(
                        rustc_middle::ty::print::with_no_trimmed_paths!(format!("{}", p.skip_norm_wip()))
                    ))
                })
                .collect();
            f.push(("preds", J::A(ps)));
        } else if is_const_like {
            f.push(("constitem", J::B(true)));
        } else {
            // closure: parent fn
            let parent = tcx.typeck_root_def_id(did);
            if let ty::Closure(_, cargs) =
                tcx.type_of(did).instantiate_identity().skip_norm_wip().kind()
            {
                let ut: Vec<J> =
                    cargs.as_closure().upvar_tys().iter().map(|t| cx.ty(t)).collect();
                f.push(("upvar_tys", J::A(ut)));
            }
            f.push(("root", cx.uidj(parent)));
            f.push(("parent", cx.uidj(tcx.parent(did))));
        }
        f.push(("mir", body_json(&mut cx, did, body)));
        // promoteds
        if is_const_like {
            fns.push(J::O(f));
            nbodies += 1;
            continue;
        }
        let promoted = tcx.promoted_mir(did);
        if !promoted.is_empty() {
            let mut pv = vec![];
            for (_p, pb) in promoted.iter_enumerated() {
                pv.push(body_json(&mut cx, did, pb));
            }
            f.push(("promoted", J::A(pv)));
        }
        fns.push(J::O(f));
        nbodies += 1;
    }

    let cfgs: Vec<J> = {
        let mut v: Vec<String> = tcx
            .sess
            .config
            .iter()
            .filter_map(|(k, v)| {
                let k = k.to_string();
                if k == "feature" {
                    v.map(|v| format!("feature={}", v))
                } else if k.starts_with("zcash") {
                    Some(match v {
                        Some(v) => format!("{}={}", k, v),
                        None => k,
                    })
                } else {
                    None
                }
            })
            .collect();
        v.sort();
        v.into_iter().map(J::S).collect()
    };

    let root = J::O(vec![
        ("crate", J::s(crate_name.clone())),
        ("cfg", J::A(cfgs)),
        ("nbodies", J::I(nbodies as i128)),
        ("adts", J::A(adts)),
        ("consts", J::A(consts)),
        ("traits", J::A(traits)),
        ("impls", J::A(impls)),
        ("fns", J::A(fns)),
        ("types", cx.types.to_json()),
        ("spans", cx.spans.to_json()),
        ("names", cx.names.to_json()),
    ]);
    let mut out = String::with_capacity(1 << 20);
    root.write(&mut out);
    let pid = std::process::id();
    let tmp = format!("{}/.{}.{}.tmp", outdir, crate_name, pid);
    let fin = format!("{}/{}.json", outdir, crate_name);
    std::fs::create_dir_all(&outdir).ok();
    std::fs::write(&tmp, out).expect("zfacts: write failed");
    std::fs::rename(&tmp, &fin).expect("zfacts: rename failed");
}

struct Cb;
impl rustc_driver::Callbacks for Cb {
    fn after_analysis<'tcx>(
        &mut self,
        _c: &rustc_interface::interface::Compiler,
        tcx: TyCtxt<'tcx>,
    ) -> Compilation {
        dump(tcx);
        Compilation::Continue
    }
}

fn main() {
    let mut args: Vec<String> = std::env::args().collect();
    // RUSTC_WORKSPACE_WRAPPER passes the real rustc path as argv[1]
    if args.len() > 1 && (args[1].ends_with("rustc") || args[1].contains("/rustc")) {
        args.remove(1);
    }
    let _ = LocalDefId::to_def_id; // keep import used
    rustc_driver::run_compiler(&args, &mut Cb);
}
