"""defuse — single-definition chains on MIR ("where does this operand come from").

origin(body, operand) follows locals that have exactly one definition through copies, moves,
reference/dereference pairs, checked-arithmetic tuples and integer casts and returns a small
expression tree:
  ('arg', i) | ('const', value) | ('call', callee_pretty, [origins...]) |
  ('bin', op, a, b) | ('un', op, a) | ('field', origin, '.name') | ('agg', name, [origins]) |
  ('local', n)   (several definitions: a join the chain cannot see through)
"""


class DefUse:
    MAXD = 24

    def __init__(self, body):
        self.body = body
        self.defs = {}
        for bi, blk in enumerate(body.blocks):
            if blk.cleanup:
                continue
            for s in blk.stmts:
                if s.kind == "=" and not s.place.proj:
                    self.defs.setdefault(s.place.local, []).append(("stmt", bi, s))
                elif s.kind in ("=", "setdisc") and s.place.proj and s.place.proj[0] != "*":
                    self.defs.setdefault(s.place.local, []).append(("partial", bi, s))
            t = blk.term
            if t.kind == "call" and t.dest is not None:
                if not t.dest.proj:
                    self.defs.setdefault(t.dest.local, []).append(("call", bi, t))
                elif t.dest.proj[0] != "*":
                    self.defs.setdefault(t.dest.local, []).append(("partial", bi, t))

    def single(self, local):
        d = self.defs.get(local, [])
        if len(d) == 1 and d[0][0] in ("stmt", "call"):
            return d[0]
        return None

    def origin_place(self, place, depth=0):
        if depth > self.MAXD:
            return ("local", place.local)
        base = self.origin_local(place.local, depth + 1)
        for p in place.proj:
            if p == "*":
                if base[0] == "ref":
                    base = base[1]
                else:
                    base = ("deref", base)
            elif p.startswith("."):
                if base[0] == "bin" and base[1].endswith("WithOverflow") and p == ".0":
                    base = ("bin", base[1].replace("WithOverflow", ""), base[2], base[3])
                elif base[0] == "agg" and base[1] == "tuple" and p[1:].isdigit() and \
                        int(p[1:]) < len(base[2]):
                    base = base[2][int(p[1:])]
                else:
                    base = ("field", base, p)
            elif p.startswith("as "):
                base = ("variant", base, p[3:])
            else:
                base = ("proj", base, p)
        return base

    def origin_local(self, local, depth=0):
        if 1 <= local <= self.body.argc:
            if local not in self.defs:
                return ("arg", local - 1)
        d = self.single(local)
        if d is None or depth > self.MAXD:
            return ("local", local)
        kind, _bi, x = d
        if kind == "call":
            ce = x.callee
            name = ce.target_p() if ce.indirect is None else "<indirect>"
            return ("call", name, [self.origin(a, depth + 1) for a in x.args])
        rv = x.rv
        k = rv.kind
        if k == "use":
            return self.origin(rv.ops[0], depth + 1)
        if k == "ref":
            return ("ref", self.origin_place(rv.place, depth + 1))
        if k == "bin":
            return ("bin", rv.op, self.origin(rv.ops[0], depth + 1), self.origin(rv.ops[1], depth + 1))
        if k == "un":
            return ("un", rv.op, self.origin(rv.ops[0], depth + 1))
        if k == "cast":
            inner = self.origin(rv.ops[0], depth + 1)
            if rv.op.startswith("IntToInt"):
                return ("cast", rv.ty, inner)
            return inner
        if k == "agg":
            if rv.agg[0] == "adt":
                nm = "%s::%s" % (rv.agg[1], rv.agg[2])
            elif rv.agg[0] == "closure":
                nm = "closure:" + rv.agg[1]
            else:
                nm = rv.agg[0]
            return ("agg", nm, [self.origin(o, depth + 1) for o in rv.ops])
        if k == "disc":
            return ("disc", self.origin_place(rv.place, depth + 1))
        return ("local", local)

    def root_local(self, place, depth=0):
        """the single-definition local a place is a pure copy of (through moves, copies and
        tuple packing/unpacking); None if the chain meets a multiply-defined local"""
        if depth > self.MAXD:
            return None
        proj = list(place.proj)
        local = place.local
        while True:
            d = self.single(local)
            if d is None:
                return None
            kind, _bi, x = d
            if kind == "call":
                return ("root", local) if not proj else None
            rv = x.rv
            if rv.kind == "use" and rv.ops[0].kind in ("copy", "move"):
                sp = rv.ops[0].place
                local = sp.local
                proj = list(sp.proj) + proj
                depth += 1
                if depth > self.MAXD:
                    return None
                continue
            if rv.kind == "agg" and rv.agg[0] == "tuple" and proj and proj[0][1:].isdigit() and \
                    int(proj[0][1:]) < len(rv.ops):
                op = rv.ops[int(proj[0][1:])]
                if op.kind not in ("copy", "move"):
                    return None
                local = op.place.local
                proj = list(op.place.proj) + proj[1:]
                depth += 1
                continue
            return ("root", local) if not proj else ("root", local, tuple(proj))

    def origin(self, op, depth=0):
        if op.kind == "const":
            i = op.info
            if "promoted" in i and self.body.promoted_index is None and depth < 20:
                try:
                    pb = self.body.fn.promoted[i["promoted"]]
                    return self.__class__(pb).origin_local(0, depth + 1)
                except (IndexError, AttributeError):
                    return ("const", None)
            if "v" in i:
                return ("const", i["v"])
            if "fn" in i:
                return ("fn", i.get("p"))
            if "str" in i:
                return ("const", i["str"])
            if "txt" in i:
                return ("const", i["txt"])
            if "def" in i:
                return ("constdef", i["def"])
            return ("const", None)
        if op.kind in ("copy", "move"):
            return self.origin_place(op.place, depth)
        return ("unknown",)


def strip_refs(o):
    while o and o[0] in ("ref", "deref"):
        o = o[1]
    return o


def show(o):
    if not isinstance(o, tuple):
        return str(o)
    k = o[0]
    if k == "arg":
        return "arg%d" % o[1]
    if k == "const":
        return repr(o[1])
    if k == "call":
        return "%s(%s)" % (o[1].rsplit("::", 1)[-1], ", ".join(show(a) for a in o[2]))
    if k == "bin":
        return "(%s %s %s)" % (show(o[2]), o[1], show(o[3]))
    if k == "un":
        return "%s(%s)" % (o[1], show(o[2]))
    if k == "field":
        return "%s%s" % (show(o[1]), o[2])
    if k in ("ref", "deref"):
        return ("&" if k == "ref" else "*") + show(o[1])
    if k == "cast":
        return "(%s as %s)" % (show(o[2]), o[1])
    if k == "agg":
        return "%s{%s}" % (o[1], ", ".join(show(a) for a in o[2]))
    if k == "local":
        return "_%d" % o[1]
    if k == "variant":
        return "(%s as %s)" % (show(o[1]), o[2])
    return str(o)
