"""wire (E8, second engine) — attributed wire-event sequences of straight-line codecs, from MIR.

A codec function whose stream operations are totally ordered by dominance (the only branches
between them are `?` error exits) is *linear*: the order of its operations in the CFG is the
order of bytes on the wire.  For such a function this module lists the operations with
  enc   what is read/written:  int:<le|be>:<T> | raw:<N> | cs[:unbounded] | vec(<elem events>) |
        array(..) | opt(..) | nested:<stem>
  attr  which value it is: for a writer the field/accessor the written value comes from, for a
        reader the field / constructor parameter / tuple position the value read ends up in
Readers and writers of one type must produce the same sequence.  Functions that branch between
stream operations are reported as not linear (None) and must be handled by their callers.
"""
import re

import defuse
import zf

R_INT = re.compile(r"ReadBytesExt>?::read_(u8|i8|u16|i16|u32|i32|u64|i64)(?:_(le|be))?$")
W_INT = re.compile(r"WriteBytesExt>?::write_(u8|i8|u16|i16|u32|i32|u64|i64)(?:_(le|be))?$")
R_EXACT = re.compile(r"::read_exact$")
W_ALL = re.compile(r"::write_all$")
CS_R = re.compile(r"CompactSize::(read_unbounded|read_t|read)(::<.*>)?$")
CS_W = re.compile(r"CompactSize::(write_unbounded|write)$")
VEC_R = re.compile(r"zcash_encoding::(Vector|Array|Optional)::(read\w*)(::<.*>)?$")
VEC_W = re.compile(r"zcash_encoding::(Vector|Array|Optional)::(write\w*)(::<.*>)?$")
FROM_BYTES = re.compile(r"core::num::<impl (\w+)>::from_(le|be)_bytes$")
TO_BYTES = re.compile(r"core::num::<impl (\w+)>::to_(le|be)_bytes$")
AMOUNT_FROM = re.compile(r"::(from_nonnegative_i64_le_bytes|from_i64_le_bytes|from_u64_le_bytes)$")
AMOUNT_TO = re.compile(r"::(to_i64_le_bytes|to_u64_le_bytes)$")
NESTED_R = re.compile(r"(^|::)(read\w*|temporary_zcashd_read\w*)$")
NESTED_W = re.compile(r"(^|::)(write\w*|temporary_zcashd_write\w*)$")
PASS_W = re.compile(r"::(to_(le|be)_bytes|to_bytes|to_repr|to_i64_le_bytes|to_u64_le_bytes|from|into|"
                    r"as_ref|as_bytes|as_slice|deref|clone|borrow|to_vec|as_inner|inner|copied|cloned)$")
PASS_R = re.compile(r"as core::ops::Try>::branch$|::(from|into|try_from|try_into|map_err|map|and_then|"
                    r"ok_or|ok_or_else|from_(le|be)_bytes|from_bytes|from_nonnegative_i64_le_bytes|"
                    r"from_i64_le_bytes|from_u64_le_bytes|from_repr|unwrap_or|into_option|ok|transpose|"
                    r"from_u32|from_u64|into_iter|collect)$")
WIDTH = {"u8": 1, "i8": 1, "u16": 2, "i16": 2, "u32": 4, "i32": 4, "u64": 8, "i64": 8}


class Ev:
    __slots__ = ("enc", "attr", "span", "sub", "checked", "fn", "pos", "guards")

    def __init__(self, enc, attr=None, span=None, sub=None, checked=False, fn=None, pos=None,
                 guards=frozenset()):
        self.pos = pos
        self.guards = guards
        if attr in ("ret", "self", "e", "b", "w", "r", "map_or", "f", "x", "v"):
            attr = None
        self.enc, self.attr, self.span, self.sub, self.checked, self.fn = enc, attr, span, sub, checked, fn

    def ident(self):
        return (self.key(), self.attr, tuple(sorted(self.guards)))

    def with_guards(self, g):
        if not g:
            return self
        return Ev(self.enc, self.attr, self.span, self.sub, self.checked, self.fn, self.pos,
                  frozenset(self.guards | g))

    def key(self):
        if self.sub is not None:
            return "%s(%s)" % (self.enc, ",".join(e.key() for e in self.sub))
        return self.enc

    def __repr__(self):
        return "%s%s" % (self.key(), ("=" + self.attr) if self.attr else "")


def _arr_len(ty):
    m = re.search(r"\[u8; (\d+)\]", ty or "")
    return int(m.group(1)) if m else None


class Linear:
    def __init__(self, world, fn):
        self.w, self.f, self.b = world, fn, fn.body
        self.du = defuse.DefUse(fn.body)
        self._uses = None

    # ---- ordering
    def ordered(self, calls):
        """sort (bb, term) by dominance; None if two of them are unordered (a real branch)"""
        b = self.b
        out = sorted(calls, key=lambda x: len([1 for y in calls if y[0] != x[0] and b.dominates(y[0], x[0])]))
        for i in range(len(out) - 1):
            if not b.dominates(out[i][0], out[i + 1][0]):
                return None
        return out

    def stream_calls(self, side):
        out = []
        for bb, t in self.b.calls():
            if self.b.blocks[bb].cleanup or t.callee.indirect is not None:
                continue
            if self.classify(t, side) is not None:
                out.append((bb, t))
        return out

    def classify(self, t, side):
        p = t.callee.target_p()
        dp = t.callee.p or p
        if side == "r":
            for rx, k in ((R_INT, "int"), (R_EXACT, "raw"), (CS_R, "cs"), (VEC_R, "vec")):
                if rx.search(p) or rx.search(dp):
                    return k
            if NESTED_R.search(p) and not p.startswith("core::") and self._takes_stream(t):
                return "nested"
            if self._stream_closure(t, side):
                return "iter"
        else:
            for rx, k in ((W_INT, "int"), (W_ALL, "raw"), (CS_W, "cs"), (VEC_W, "vec")):
                if rx.search(p) or rx.search(dp):
                    return k
            if NESTED_W.search(p) and not p.startswith("core::") and self._takes_stream(t):
                return "nested"
            if self._stream_closure(t, side):
                return "iter"
        return None

    def _stream_closure(self, t, side):
        """a closure argument (to an iterator combinator) whose body performs stream operations"""
        for a in t.args:
            if a.kind not in ("copy", "move"):
                continue
            ty = self.b.local_ty(a.place.local) if not a.place.proj else ""
            if "{closure@" not in ty:
                continue
            o = self.du.origin(a)
            if o[0] == "agg" and o[1].startswith("closure:"):
                g = self.w.fns.get(o[1][len("closure:"):])
                if g is not None and g.id != self.f.id:
                    ev = Linear(self.w, g).events(side)
                    if ev:
                        return True
        return False

    def _takes_stream(self, t):
        """one argument is (a reborrow of) a generic reader/writer or a known stream type"""
        for a in t.args:
            if a.kind in ("copy", "move"):
                ty = self.b.local_ty(a.place.local) if not a.place.proj else ""
                if re.match(r"^(&mut )*(R|W|&mut R|&mut W)$", ty) or "HashReader" in ty or \
                        "HashWriter" in ty or re.match(r"^(&mut )+[RW]$", ty) or \
                        re.match(r"^&mut (&mut )*[RW]$", ty):
                    return True
        return False

    # ---- events
    def events(self, side):
        calls = self.ordered(self.stream_calls(side))
        if calls is None:
            return None
        out = []
        for bb, t in calls:
            k = self.classify(t, side)
            ev = getattr(self, "_%s_%s" % (side, k))(bb, t)
            if ev is None:
                continue
            g = self.version_guards(bb)
            out.extend([e.with_guards(g) for e in (ev if isinstance(ev, list) else [ev])])
        return out

    # reader events
    def _r_int(self, bb, t):
        m = R_INT.search(t.callee.target_p()) or R_INT.search(t.callee.p or "")
        return Ev("int:%s:%s" % (m.group(2) or "le", m.group(1)), self.sink(t.dest.local), t.span)

    def _r_raw(self, bb, t):
        buf, n = self._buffer(t.args[1])
        if buf is None:
            return Ev("raw:?", None, t.span)
        # decoded as an integer / amount right after?
        work, seen = [buf[0]], set()
        while work and len(buf) == 1:
            l = work.pop()
            if l in seen:
                continue
            seen.add(l)
            for kind, x in self.uses(l):
                if kind == "stmt" and x.rv.kind == "use" and not x.place.proj:
                    work.append(x.place.local)
                if kind == "call" and x.callee.indirect is None:
                    p = x.callee.target_p()
                    m = FROM_BYTES.search(p)
                    if m:
                        return Ev("int:%s:%s" % (m.group(2), m.group(1)), self.sink(x.dest.local), t.span)
                    m = AMOUNT_FROM.search(p)
                    if m:
                        ity = "u64" if "u64" in m.group(1) else "i64"
                        return Ev("int:le:%s" % ity, self.sink(x.dest.local), t.span, checked=True)
        if n == 1:
            return Ev("int:le:u8", None, t.span)
        attr = None
        if len(buf) > 1:
            attr = [p[1:] for p in buf[1] if p.startswith(".") and not p[1:].isdigit()]
            attr = attr[-1] if attr else None
        return Ev("raw:%s" % (n if n else "?"), attr or self.sink(buf[0], skip_refs=True), t.span)

    def _r_cs(self, bb, t):
        p = t.callee.target_p()
        return Ev("cs:unbounded" if "unbounded" in p else "cs", self.sink(t.dest.local), t.span)

    def _r_vec(self, bb, t):
        m = VEC_R.search(t.callee.target_p())
        sub = self._closure_events(t, "r")
        return Ev("%s" % m.group(1).lower(), self.sink(t.dest.local), t.span, sub=sub)

    def _r_nested(self, bb, t):
        p = t.callee.target_p()
        return Ev("nested:" + stem(p), self.sink(t.dest.local) if t.dest is not None else None, t.span,
                  fn=t.callee.target_id(), pos=self.sink_positions(t.dest.local) if t.dest is not None else None)

    def _r_iter(self, bb, t):
        return self._iter(t, "r")

    def _w_iter(self, bb, t):
        return self._iter(t, "w")

    def _iter(self, t, side):
        sub = self._closure_events(t, side)
        p = t.callee.p or t.callee.target_p()
        if re.search(r"iter::(traits::)?(iterator::)?Iterator::|iter::from_fn|iter::repeat_with|"
                     r"::try_for_each$|::for_each$", p):
            return Ev("array", None, t.span, sub=sub)
        return list(sub or [])       # a plain higher-order call: the closure runs once

    def sink_positions(self, local):
        """for a call returning a tuple (possibly in a Result): tuple position -> where it ends up"""
        chain, work = set(), [local]
        while work:
            l = work.pop()
            if l in chain:
                continue
            chain.add(l)
            for kind, x in self.uses(l):
                if kind == "call" and x.callee.indirect is None and x.dest is not None and \
                        PASS_R.search(x.callee.target_p()):
                    work.append(x.dest.local)
                elif kind == "stmt" and x.rv.kind == "use" and not x.place.proj:
                    op = x.rv.ops[0]
                    if op.place.local == l and not (op.place.proj and op.place.proj[-1].startswith(".") and
                                                    op.place.proj[-1][1:].isdigit() and
                                                    "Continue" not in "".join(op.place.proj) and
                                                    len(op.place.proj) == 1):
                        work.append(x.place.local)
        out = {}
        for blk in self.b.blocks:
            if blk.cleanup:
                continue
            for s_ in blk.stmts:
                if s_.kind == "=" and s_.rv.kind == "use" and s_.rv.ops[0].kind in ("copy", "move"):
                    op = s_.rv.ops[0]
                    if op.place.local in chain and op.place.proj and op.place.proj[-1].startswith(".") \
                            and op.place.proj[-1][1:].isdigit() and len(op.place.proj) == 1 and \
                            not s_.place.proj:
                        k = int(op.place.proj[-1][1:])
                        r = self.sink(s_.place.local)
                        if r and k not in out:
                            out[k] = r
        return out or None

    # writer events
    def _w_int(self, bb, t):
        m = W_INT.search(t.callee.target_p()) or W_INT.search(t.callee.p or "")
        return Ev("int:%s:%s" % (m.group(2) or "le", m.group(1)), self.source(t.args[1]), t.span)

    def _w_raw(self, bb, t):
        o = self.du.origin(t.args[1])
        inner = defuse.strip_refs(o)
        if inner[0] == "call":
            m = TO_BYTES.search(inner[1])
            if m:
                return Ev("int:%s:%s" % (m.group(2), m.group(1)), self.source_o(inner[2][0]), t.span)
            m = AMOUNT_TO.search(inner[1])
            if m:
                return Ev("int:le:%s" % ("u64" if "u64" in m.group(1) else "i64"),
                          self.source_o(inner[2][0]), t.span)
        if inner[0] == "agg" and inner[1] == "array":
            if all(x[0] == "const" for x in inner[2]):
                return Ev("tag:%s" % ",".join(str(x[1]) for x in inner[2]), None, t.span)
            if len(inner[2]) == 1:
                return Ev("int:le:u8", self.source_o(inner[2][0]), t.span)
        n = self._written_len(t.args[1])
        return Ev("raw:%s" % (n if n else "?"), self.source_o(o), t.span)

    def _w_cs(self, bb, t):
        p = t.callee.target_p()
        o = self.du.origin(t.args[1])
        if o[0] == "const":
            return Ev("cs", "const:%s" % o[1], t.span)
        return Ev("cs:unbounded" if "unbounded" in p else "cs", self.source_o(o), t.span)

    def _w_vec(self, bb, t):
        m = VEC_W.search(t.callee.target_p())
        sub = self._closure_events(t, "w")
        return Ev("%s" % m.group(1).lower(), self.source(t.args[1]) if len(t.args) > 1 else None,
                  t.span, sub=sub)

    def _w_nested(self, bb, t):
        p = t.callee.target_p()
        attr = None
        for a in t.args:
            ty = self.b.local_ty(a.place.local) if a.kind in ("copy", "move") and not a.place.proj else ""
            if re.match(r"^(&mut )+[RW]$|^[RW]$", ty):
                continue
            attr = attr or self.source(a)
        return Ev("nested:" + stem(p), attr, t.span, fn=t.callee.target_id())

    # ---- paths
    def paths(self, side, cap=400):
        """set of event sequences (tuples of Ev) along the loop-free success paths of the body;
        None if a stream operation sits in a loop or the number of layouts exceeds `cap`"""
        import sqlfx
        b = self.b
        cyc = sqlfx.cyclic_blocks(b)
        calls = {bb: t for bb, t in self.stream_calls(side)}
        if any(bb in cyc for bb in calls):
            return None
        evs = {}
        for bb, t in calls.items():
            k = self.classify(t, side)
            ev = getattr(self, "_%s_%s" % (side, k))(bb, t)
            evs[bb] = ev if isinstance(ev, list) else ([ev] if ev is not None else [])
        for bb in list(evs):
            g = self.version_guards(bb)
            if g:
                evs[bb] = [e.with_guards(g) for e in evs[bb]]
        memo = {}
        onstack = set()

        def err_block(bi):
            blk = b.blocks[bi]
            for st in blk.stmts:
                if st.kind == "=" and st.rv.kind == "agg" and st.rv.agg[0] == "adt" and \
                        st.rv.agg[1] == "core::result::Result" and st.rv.agg[2] == "Err" and \
                        st.place.local == 0:
                    return True
            t = blk.term
            if t.kind == "call" and t.callee.indirect is None:
                p = t.callee.target_p()
                if "FromResidual" in p or p.startswith("core::panicking") or \
                        (t.target is None):
                    return True
            return t.kind in ("unreachable", "resume", "abort")

        def succs(bi):
            t = b.blocks[bi].term
            if t.kind == "switch":
                o = self.du.origin(t.discr)
                if o[0] == "disc" and isinstance(o[1], tuple) and o[1][0] == "call" and \
                        o[1][1].endswith("as core::ops::Try>::branch"):
                    return [tb for v, tb in t.arms if v == 0]
                return [tb for _v, tb in t.arms] + ([t.otherwise] if t.otherwise is not None else [])
            if t.kind in ("call", "drop", "assert", "goto"):
                return [t.target] if t.target is not None else []
            return []

        def go(bi):
            if bi in memo:
                return memo[bi]
            if bi in onstack:
                return set()
            if err_block(bi):
                memo[bi] = set()
                return memo[bi]
            onstack.add(bi)
            here = tuple(evs.get(bi, ()))
            t = b.blocks[bi].term
            out = set()
            if t.kind == "return":
                out.add(here)
            else:
                for sb in succs(bi):
                    if b.blocks[sb].cleanup:
                        continue
                    for tail in go(sb):
                        out.add(here + tail)
                        if len(out) > cap:
                            break
            onstack.discard(bi)
            memo[bi] = out
            return out
        res = go(0)
        if len(res) > cap:
            return None
        # dedupe by identity
        uniq = {}
        for seq in res:
            uniq.setdefault(tuple(e.ident() for e in seq), seq)
        return list(uniq.values())

    def version_guards(self, bb):
        """(predicate, polarity) of the `version.has_*()` tests that decide whether block bb runs"""
        import vc
        b = self.b
        out = set()
        cur = bb
        hops = 0
        while hops < 12:
            sw = vc.controlling_switch(b, cur)
            if sw is None:
                break
            hops += 1
            t = b.blocks[sw].term
            o = self.du.origin(t.discr)
            neg = False
            while o[0] == "un" and o[1] == "Not":
                neg = not neg
                o = o[2]
            if o[0] == "call" and re.search(r"TxVersion::has_\w+$", o[1]):
                arms = list(t.arms) + [("o", t.otherwise)]
                inside = [v for v, tb in arms if tb is not None and (tb == bb or b.dominates(tb, bb))]
                if len(inside) == 1:        # bb lies in exactly one arm (not a join after the test)
                    pol = (inside[0] != 0) != neg
                    out.add((o[1].rsplit("::", 1)[-1], pol))
            cur = sw
        return frozenset(out)

    # ---- helpers
    def _closure_events(self, t, side):
        for a in t.args:
            o = self.du.origin(a)
            if o[0] == "agg" and o[1].startswith("closure:"):
                cid = o[1][len("closure:"):]
                g = self.w.fns.get(cid)
                if g is not None:
                    return Linear(self.w, g).events(side)
            if o[0] == "fn" and o[1]:
                g = [x for x in self.w.by_p.get(o[1], [])]
                if g:
                    ev = Linear(self.w, g[0]).events(side)
                    return ev
                return [Ev("nested:" + stem(o[1]))]
        return None

    def _buffer(self, op):
        """((local, proj?), N) of the byte array behind `&mut buf` / `&mut x.0`"""
        seen = 0
        while op is not None and op.kind in ("copy", "move") and seen < 10:
            seen += 1
            d = self.du.single(op.place.local)
            if d is None:
                return None, None
            kind, _bi, x = d
            if kind == "call":
                op = x.args[0] if x.args else None
                continue
            rv = x.rv
            if rv.kind in ("ref", "raw"):
                pl = rv.place
                if tuple(pl.proj) == ("*",):
                    op = zf.Op("copy", zf.Place([pl.local]))
                    continue
                n = _arr_len(x.ty) or _arr_len(self.b.local_ty(pl.local) if not pl.proj else "")
                return ((pl.local, tuple(pl.proj)) if pl.proj else (pl.local,)), n
            if rv.kind in ("use", "cast"):
                op = rv.ops[0]
                continue
            return None, None
        return None, None

    def _written_len(self, op):
        seen = 0
        while op is not None and op.kind in ("copy", "move") and seen < 10:
            seen += 1
            ty = self.b.local_ty(op.place.local) if not op.place.proj else ""
            n = _arr_len(ty) if re.match(r"^&(mut )?\[u8; \d+\]$", ty) else None
            if n:
                return n
            d = self.du.single(op.place.local)
            if d is None or d[0] != "stmt":
                return None
            rv = d[2].rv
            if rv.kind in ("use", "cast"):
                op = rv.ops[0]
            elif rv.kind in ("ref", "raw"):
                n = _arr_len(d[2].ty) if re.match(r"^&(mut )?\[u8; \d+\]$", d[2].ty or "") else None
                if n:
                    return n
                if tuple(rv.place.proj) == ("*",):
                    op = zf.Op("copy", zf.Place([rv.place.local]))
                else:
                    return None
            else:
                return None
        return None

    def source(self, op):
        return self.source_o(self.du.origin(op))

    def source_o(self, o):
        """name of the field / accessor a written value comes from"""
        n = 0
        while isinstance(o, tuple) and n < 40:
            n += 1
            k = o[0]
            if k in ("ref", "deref", "variant", "proj"):
                o = o[1]
            elif k == "cast":
                o = o[2]
            elif k == "field":
                nm = o[2][1:]
                if not nm.isdigit():
                    return nm
                o = o[1]
            elif k == "call":
                if PASS_W.search(o[1]) and o[2]:
                    o = o[2][0]
                    continue
                last = o[1].rsplit("::", 1)[-1]
                return last if o[2] else None
            elif k == "local":
                return self.b.local_name(o[1])
            elif k == "arg":
                return self.b.local_name(o[1] + 1)
            else:
                return None
        return None

    def uses(self, local):
        if self._uses is None:
            self._uses = {}
            for bi, blk in enumerate(self.b.blocks):
                if blk.cleanup:
                    continue
                for s in blk.stmts:
                    if s.kind != "=":
                        continue
                    for op in (s.rv.ops or []):
                        if op.kind in ("copy", "move"):
                            self._uses.setdefault(op.place.local, []).append(("stmt", s))
                    if s.rv.kind in ("ref", "raw", "disc", "len") and s.rv.place is not None:
                        self._uses.setdefault(s.rv.place.local, []).append(("ref", s))
                t = blk.term
                if t.kind == "call":
                    for op in t.args:
                        if op.kind in ("copy", "move"):
                            self._uses.setdefault(op.place.local, []).append(("call", t))
        return self._uses.get(local, [])

    def sink(self, local, skip_refs=False, depth=0, seen=None):
        """where a value read from the stream ends up: field / parameter name / ret.k"""
        seen = seen if seen is not None else set()
        if local in seen or depth > 24:
            return None
        seen.add(local)
        if local == 0:
            return "ret"
        nm = self.b.local_name(local)
        best = None
        for kind, x in self.uses(local):
            if kind == "stmt":
                rv = x.rv
                if rv.kind == "agg":
                    idx = [i for i, o in enumerate(rv.ops) if o.kind in ("copy", "move") and o.place.local == local]
                    if rv.agg[0] == "adt" and rv.agg[1].startswith("core::"):
                        r = self.sink(x.place.local, depth=depth + 1, seen=seen)    # Ok(..)/Some(..)
                    elif rv.agg[0] == "adt" and idx and len(rv.agg) > 3 and rv.agg[3]:
                        r = rv.agg[3][idx[0]]
                        if r.isdigit():
                            r = self.sink(x.place.local, depth=depth + 1, seen=seen) or r
                    elif rv.agg[0] == "tuple" and idx:
                        r0 = self.sink(x.place.local, depth=depth + 1, seen=seen)
                        r = ("%s.%d" % (r0, idx[0])) if r0 else "#%d" % idx[0]
                    else:
                        r = None
                elif rv.kind in ("use", "cast"):
                    if x.place.proj and x.place.proj[-1].startswith(".") and \
                            not x.place.proj[-1][1:].isdigit():
                        r = x.place.proj[-1][1:]
                    else:
                        r = self.sink(x.place.local, depth=depth + 1, seen=seen)
                else:
                    r = None
            elif kind == "call":
                p = x.callee.target_p() if x.callee.indirect is None else ""
                if "FromResidual" in p:
                    continue
                if PASS_R.search(p) and x.dest is not None:
                    r = self.sink(x.dest.local, depth=depth + 1, seen=seen)
                else:
                    r = None
                    tg = self.w.fns.get(x.callee.target_id()) if x.callee.indirect is None else None
                    i = [j for j, a in enumerate(x.args) if a.kind in ("copy", "move") and a.place.local == local]
                    if tg is not None and tg.crate.name == "zcash_encoding":
                        r = None
                    elif tg is not None and tg.argnames and i and i[0] < len(tg.argnames):
                        r = tg.argnames[i[0]]
                    elif x.dest is not None and i:
                        r = self.sink(x.dest.local, depth=depth + 1, seen=seen)
            else:
                if skip_refs:
                    continue
                r = self.sink(x.place.local, depth=depth + 1, seen=seen) if not x.place.proj else None
            if r and not best:
                best = r
        if best in (None, "ret") and nm and nm not in ("val", "residual", "tmp", "buf", "bytes"):
            return nm if best is None else best
        return best


def stem(p):
    """read_v5_bundle / write_v5_bundle -> module-qualified stem `sapling::v5_bundle`"""
    segs = p.split("::")
    last = re.sub(r"^(temporary_zcashd_)?(read|write)_?", "", segs[-1])
    owner = segs[-2] if len(segs) > 1 else ""
    owner = re.sub(r"<.*>", "", owner)
    return "%s::%s" % (owner, last) if last else owner


def linear_events(world, fn, side):
    return Linear(world, fn).events(side)


# ------------------------------------------------------------------------------- matching
class Matcher:
    """decides whether a writer layout is one of the reader's layouts, expanding nested codec
    calls on either side when the other side spells the same bytes out"""

    def __init__(self, world, alias=None):
        self.w = world
        self.cache = {}
        self.alias = alias or {}
        self.attr_pairs = 0
        self.why = None
        self.best = None

    def paths(self, fid, side):
        k = (fid, side)
        if k not in self.cache:
            f = self.w.fns.get(fid)
            self.cache[k] = Linear(self.w, f).paths(side) if f is not None else None
        return self.cache[k]

    @staticmethod
    def _norm(a):
        if a is None:
            return None
        a = re.sub(r"^(n_|num_|the_)", "", a)
        a = re.sub(r"(_bytes|_net|_byte)$", "", a)
        return a

    def enc_eq(self, r, w_):
        a, b = r.enc, w_.enc
        if a == b:
            return True
        ma, mb = re.match(r"raw:(\d+|\?)$", a), re.match(r"raw:(\d+|\?)$", b)
        if ma and mb:
            return "?" in (ma.group(1), mb.group(1))
        ia, ib = re.match(r"int:(le|be):[ui](\d+)$", a), re.match(r"int:(le|be):[ui](\d+)$", b)
        if ia and ib:
            return ia.groups() == ib.groups()
        if b == "cs" and w_.attr and str(w_.attr).startswith("const:0") and a in ("vector", "array", "optional"):
            return True
        if {a, b} <= {"cs", "cs:unbounded"}:
            return False
        return False

    def match(self, rs, ws, depth=0, empty_ctx=False):
        rs, ws = list(rs), list(ws)
        if depth > 80:
            return self._fail("nesting too deep", ws)
        while rs and ws:
            r, w_ = rs[0], ws[0]
            if empty_ctx and r.enc == "array" and w_.enc != "array":
                rs.pop(0)          # count-driven array after zero counts: no bytes
                continue
            if not r.enc.startswith("nested:") and r.enc not in ("array", "vector"):
                empty_ctx = False
            # a length-prefixed byte string is the same bytes whether it is handled as a vector of u8 or as
            # a CompactSize followed by that many raw bytes
            def _bytevec(e):
                return e.enc == "vector" and e.sub is not None and len(e.sub) == 1 and \
                    e.sub[0].enc in ("int:le:u8", "int:be:u8", "raw:1")
            if _bytevec(w_) and r.enc == "cs" and len(rs) > 1 and rs[1].enc == "raw:?":
                rs, ws = rs[2:], ws[1:]
                continue
            if _bytevec(r) and w_.enc == "cs" and len(ws) > 1 and ws[1].enc == "raw:?":
                rs, ws = rs[1:], ws[2:]
                continue
            rn, wn = r.enc.startswith("nested:"), w_.enc.startswith("nested:")
            if rn and wn and r.enc == w_.enc:
                if r.guards != w_.guards:
                    return self._fail("%s is read under %s but written under %s" % (
                        r.enc, sorted(r.guards) or "no version test", sorted(w_.guards) or "no version test"), ws)
                rs.pop(0)
                ws.pop(0)
                continue
            if rn or wn:
                # expand the nested side (every layout of the callee) and retry
                side, ev, rest_r, rest_w = ("r", r, rs[1:], ws) if rn else ("w", w_, rs, ws[1:])
                ps = self.paths(ev.fn, side)
                if not ps:
                    return self._fail("%s has no linear layout to compare with %s" % (ev.enc, (w_ if rn else r)), ws)
                for p in ps:
                    keep = self.why
                    if ev.guards:
                        p = [e.with_guards(ev.guards) for e in p]
                    if side == "r" and ev.pos:
                        q = []
                        for e in p:
                            m_ = re.match(r"ret\.(\d+)$", e.attr or "")
                            if m_:
                                e = Ev(e.enc, ev.pos.get(int(m_.group(1))), e.span, e.sub, e.checked, e.fn, e.pos,
                                       e.guards)
                            q.append(e)
                        p = q
                    if side == "r" and self.match(list(p) + rest_r, ws, depth + 1, empty_ctx):
                        return True
                    if side == "w" and self.match(rs, list(p) + rest_w, depth + 1, empty_ctx):
                        return True
                    self.why = keep or self.why
                return False
            if not self.enc_eq(r, w_):
                return self._fail("reader has %r where writer has %r" % (r, w_), ws)
            if r.guards != w_.guards:
                return self._fail("%r is read under %s but %r is written under %s" % (
                    r, sorted(r.guards) or "no version test", w_, sorted(w_.guards) or "no version test"), ws)
            if r.sub is not None and w_.sub is not None:
                if not self.match(r.sub, w_.sub, depth + 1):
                    return self._fail("element codec of %s: %s" % (r.enc, self.why), ws)
            if r.sub is None and w_.sub is None:
                ra, wa = self._norm(r.attr), self._norm(w_.attr)
                if ra and wa and not str(wa).startswith("const:") and not re.match(r"(#|ret)", ra) \
                        and not re.match(r"(#|ret)", wa):
                    if ra != wa and self.alias.get(ra, ra) != self.alias.get(wa, wa) and \
                            not (ra in wa or wa in ra):
                        return self._fail("reader stores %r as `%s` where writer emits `%s` (%r)" % (r.enc, r.attr,
                                                                                            w_.attr, w_.enc), ws)
                    self.attr_pairs += 1
            if w_.enc == "cs" and str(w_.attr).startswith("const:0") and r.enc == "vector":
                empty_ctx = True
            rs.pop(0)
            ws.pop(0)
        # trailing empty arrays on the reader side carry no bytes
        while rs:
            if empty_ctx and rs[0].enc == "array":
                rs.pop(0)
                continue
            if rs[0].enc.startswith("nested:") and not ws:
                ps = self.paths(rs[0].fn, "r")
                if ps and any(len(p_) == 0 for p_ in ps):
                    rs.pop(0)          # a nested reader with a layout that reads nothing
                    continue
            break
        if ws:
            return self._fail("writer continues with %r after the reader finished" % (ws[0],), ws)
        if rs:
            return self._fail("reader continues with %r after the writer finished" % (rs[0],), ws)
        return True

    def _fail(self, why, ws):
        """remember the reason of the attempt that got furthest into the writer layout"""
        left = len(ws)
        if self.best is None or left < self.best[0]:
            self.best = (left, why)
        self.why = why
        return False

    def empty_layout(self, ws):
        return bool(ws) and all(e.enc == "cs" and str(e.attr).startswith("const:0") for e in ws)

    def match_empty(self, rs, ws):
        """an all-zero-counts writer layout matches a reader layout whose vectors are as many and
        whose other operations are count-driven arrays (no bytes when the counts are zero)"""
        vs = [e for e in rs if e.enc in ("vector",)]
        rest = [e for e in rs if e.enc not in ("vector", "array")]
        return len(vs) == len(ws) and not rest


OPAQUE = ("nested:JsDescription",)


def expand_writer(m, seq, cap=6000, depth=0):
    """all complete layouts of a writer layout with its nested codec calls expanded (every layout
    of a writer callee is producible); nested calls whose callee has no loop-free layout, or that
    are listed as opaque, stay as they are"""
    outs = [[]]
    for e in seq:
        alts = None
        if e.enc.startswith("nested:") and e.enc not in OPAQUE and depth < 12:
            ps = m.paths(e.fn, "w")
            if ps:
                alts = []
                for p in ps:
                    p = [x.with_guards(e.guards) for x in p]
                    alts.extend(expand_writer(m, p, cap, depth + 1))
        if alts is None:
            alts = [[e]]
        new = []
        for o in outs:
            for a in alts:
                new.append(o + a)
                if len(new) > cap:
                    return new
        outs = new
    # dedupe
    uniq = {}
    for o in outs:
        uniq.setdefault(tuple(x.ident() for x in o), o)
    return list(uniq.values())


def includes(world, rf, wf, alias=None):
    """(ok, unmatched writer layouts [(layout, why)], stats) — every layout the writer can produce
    is a layout the reader follows"""
    m = Matcher(world, alias)
    rp, wp = m.paths(rf.id, "r"), m.paths(wf.id, "w")
    if rp is None or wp is None or not rp or not wp:
        return None, [("-", "reader or writer is not a loop-free codec")], {}
    bad = []
    wfull = []
    for ws in wp:
        wfull.extend(expand_writer(m, list(ws)))
    uniq = {}
    for o in wfull:
        uniq.setdefault(tuple(x.ident() for x in o), o)
    wfull = list(uniq.values())
    for ws in wfull:
        okk = False
        whys = []
        m.best = None
        for rs in rp:
            m.why = None
            if m.empty_layout(ws) and m.match_empty(rs, ws):
                okk = True
                break
            if m.match(rs, ws):
                okk = True
                break
            whys.append(m.why)
        if not okk:
            # the most informative reason: the one from the reader layout that got furthest
            bad.append((list(ws), [m.best[1]] if m.best else sorted(set(x for x in whys if x), key=len)[:2]))
    return not bad, bad, {"reader_layouts": len(rp), "writer_layouts": len(wp),
                          "writer_layouts_expanded": len(wfull), "attributed": m.attr_pairs}
