"""zf — loading the zfacts JSON fact base, CFG utilities, call graph.

Nothing here runs the analysed code: the facts are rustc's own MIR/HIR for /repo's
current working tree, extracted by the zfacts driver (see extract.py).
"""
import json
import os
import re
from collections import defaultdict, deque

# ----------------------------------------------------------------------------- model


class Span:
    __slots__ = ("file", "line", "col", "endline", "macros")

    def __init__(self, s):
        loc, _, mac = s.partition("|")
        parts = loc.rsplit(":", 3)
        self.file = parts[0]
        self.line = int(parts[1])
        self.col = int(parts[2])
        self.endline = int(parts[3])
        self.macros = tuple(m for m in mac.split("<") if m)

    @property
    def expn(self):
        return bool(self.macros)

    def has_macro(self, *names):
        return any(m in names for m in self.macros)

    def user_written(self):
        """True if hand-written code or only a `?`/for/etc. desugaring (not a macro)."""
        return all(m.startswith("desugar:") for m in self.macros)

    def loc(self):
        return "%s:%d" % (self.file, self.line)

    def __repr__(self):
        return self.loc() + ("|" + "<".join(self.macros) if self.macros else "")


class Place:
    __slots__ = ("local", "proj")

    def __init__(self, raw):
        self.local = raw[0]
        self.proj = tuple(raw[1:])

    def is_local(self):
        return not self.proj

    def fields(self):
        return tuple(p[1:] for p in self.proj if p.startswith("."))

    def key(self):
        return (self.local,) + self.proj

    def __eq__(self, o):
        return isinstance(o, Place) and self.local == o.local and self.proj == o.proj

    def __hash__(self):
        return hash((self.local, self.proj))

    def __repr__(self):
        s = "_%d" % self.local
        for p in self.proj:
            if p == "*":
                s = "(*%s)" % s
            elif p.startswith("."):
                s += p
            elif p.startswith("as "):
                s = "(%s %s)" % (s, p)
            else:
                s += p
        return s


class Op:
    """Operand: kind in {'copy','move','const','rt'}"""

    __slots__ = ("kind", "place", "ty", "info")

    def __init__(self, kind, place=None, ty=None, info=None):
        self.kind = kind
        self.place = place
        self.ty = ty
        self.info = info or {}

    def is_const(self):
        return self.kind == "const"

    def value(self):
        if self.kind == "const":
            return self.info.get("v")
        return None

    def __repr__(self):
        if self.kind == "const":
            i = self.info
            if "v" in i:
                return "const %s:%s" % (i["v"], self.ty)
            if "str" in i:
                return "const %r" % (i["str"][:60],)
            if "p" in i:
                return "const fn %s" % i["p"]
            if "def" in i:
                return "const %s" % i["def"]
            return "const ?:%s" % self.ty
        if self.kind == "rt":
            return "rtcheck"
        return "%s %r" % (self.kind, self.place)


class Stmt:
    __slots__ = ("kind", "place", "rv", "span", "ty", "extra")

    # kind: '=' | 'setdisc' | 'intrinsic'
    def __repr__(self):
        if self.kind == "=":
            return "%r = %r" % (self.place, self.rv)
        if self.kind == "setdisc":
            return "discriminant(%r) = %s" % (self.place, self.extra)
        return "%s %r" % (self.kind, self.extra)


class Rv:
    """Rvalue. kind in use/repeat/ref/raw/cast/bin/un/disc/agg/tls; fields by kind."""

    __slots__ = ("kind", "ops", "place", "op", "ty", "agg", "bk")

    def __init__(self, kind):
        self.kind = kind
        self.ops = ()
        self.place = None
        self.op = None
        self.ty = None
        self.agg = None
        self.bk = None

    def __repr__(self):
        k = self.kind
        if k == "use":
            return repr(self.ops[0])
        if k == "ref":
            return "&%s %r" % (self.bk, self.place)
        if k == "bin":
            return "%s(%r, %r)" % (self.op, self.ops[0], self.ops[1])
        if k == "un":
            return "%s(%r)" % (self.op, self.ops[0])
        if k == "cast":
            return "%r as %s (%s)" % (self.ops[0], self.ty, self.op)
        if k == "disc":
            return "discriminant(%r)" % (self.place,)
        if k == "agg":
            return "%r{%s}" % (self.agg, ", ".join(map(repr, self.ops)))
        return "%s(..)" % k


class Callee:
    __slots__ = ("id", "p", "full", "closures", "trait", "self_ty", "rk", "rid", "rp",
                 "unres", "ctor", "indirect")

    def target_id(self):
        """uid of the resolved callee body (or the declared callee)."""
        return self.rid or self.id

    def target_p(self):
        return self.rp or self.p

    def __repr__(self):
        if self.indirect is not None:
            return "indirect(%r)" % (self.indirect,)
        return self.full or self.p


class Term:
    __slots__ = ("kind", "span", "fnspan", "callee", "args", "dest", "target", "unwind",
                 "discr", "arms", "otherwise", "cond", "expected", "msg", "place")

    def __init__(self, kind):
        self.kind = kind
        for s in self.__slots__[1:]:
            setattr(self, s, None)

    def succs(self, unwind=False):
        k = self.kind
        out = []
        if k == "goto":
            out = [self.target]
        elif k == "switch":
            out = [b for _, b in self.arms] + [self.otherwise]
        elif k in ("call", "drop", "assert", "yield"):
            if self.target is not None:
                out = [self.target]
            if unwind and self.unwind is not None:
                out.append(self.unwind)
        return out

    def __repr__(self):
        k = self.kind
        if k == "call":
            return "%r = %r(%s) -> bb%s" % (self.dest, self.callee,
                                            ", ".join(map(repr, self.args)), self.target)
        if k == "switch":
            return "switch %r %s else bb%s" % (self.discr, self.arms, self.otherwise)
        if k == "assert":
            return "assert(%r == %s, %s) -> bb%s" % (self.cond, self.expected, self.msg[0],
                                                     self.target)
        if k == "goto":
            return "goto bb%s" % self.target
        if k == "drop":
            return "drop(%r) -> bb%s" % (self.place, self.target)
        return k


class Block:
    __slots__ = ("stmts", "term", "cleanup")


class Body:
    def __init__(self, crate, raw, fn, promoted_index=None):
        self.crate = crate
        self.fn = fn
        self.promoted_index = promoted_index
        self.argc = raw["argc"]
        T = crate.types
        self.locals = [(T[t], n) for t, n in raw["locals"]]
        self.upvars = [(n, Place(p)) for n, p in raw["upvars"]]
        self.blocks = [self._block(b) for b in raw["blocks"]]
        self._dom = None
        self._pdom = None
        self._preds = None

    # ---- decoding
    def _op(self, raw):
        k = raw[0]
        if k == "C":
            return Op("copy", Place(raw[1:]))
        if k == "M":
            return Op("move", Place(raw[1:]))
        if k == "K":
            c = self.crate
            info = dict(raw[2])
            for key in ("fn", "p", "def", "of", "adt"):
                if key in info:
                    info[key] = c.names[info[key]]
            if "closures" in info:
                info["closures"] = [c.names[x] for x in info["closures"]]
            return Op("const", None, c.types[raw[1]], info)
        return Op("rt")

    def _rv(self, raw):
        k = raw[0]
        r = Rv(k)
        c = self.crate
        if k == "use":
            r.ops = (self._op(raw[1]),)
        elif k == "repeat":
            r.ops = (self._op(raw[1]),)
            r.op = raw[2]
        elif k == "ref":
            r.bk = raw[1]
            r.place = Place(raw[2])
        elif k == "raw":
            r.bk = raw[1]
            r.place = Place(raw[2])
        elif k == "cast":
            r.op = raw[1]
            r.ops = (self._op(raw[2]),)
            r.ty = c.types[raw[3]]
        elif k == "bin":
            r.op = raw[1]
            r.ops = (self._op(raw[2]), self._op(raw[3]))
        elif k == "un":
            r.op = raw[1]
            r.ops = (self._op(raw[2]),)
        elif k == "disc":
            r.place = Place(raw[1])
        elif k == "agg":
            a = raw[1]
            if isinstance(a, list):
                if a[0] == "adt":
                    r.agg = ("adt", c.names[a[1]], a[2], tuple(a[3]))
                else:
                    r.agg = (a[0], c.names[a[1]])
            else:
                r.agg = (a,)
            r.ops = tuple(self._op(o) for o in raw[2])
        elif k == "tls":
            r.op = c.names[raw[1]]
        return r

    def _callee(self, raw):
        c = self.crate
        ce = Callee()
        for s in Callee.__slots__:
            setattr(ce, s, None)
        if "indirect" in raw:
            ce.indirect = self._op(raw["indirect"])
            ce.self_ty = c.types[raw["ty"]]
            return ce
        N = c.names
        ce.id = N[raw["id"]]
        ce.p = N[raw["p"]]
        ce.full = N[raw["full"]]
        ce.closures = [N[x] for x in raw.get("closures", [])]
        if "trait" in raw:
            ce.trait = N[raw["trait"]]
        if "self" in raw:
            ce.self_ty = c.types[raw["self"]]
        ce.rk = raw.get("rk")
        if "rid" in raw:
            ce.rid = N[raw["rid"]]
            ce.rp = N[raw["rp"]]
        ce.unres = bool(raw.get("unres"))
        ce.ctor = bool(raw.get("ctor"))
        return ce

    def _block(self, raw):
        c = self.crate
        b = Block()
        b.cleanup = raw[2]
        b.stmts = []
        for s in raw[0]:
            st = Stmt()
            st.kind = s[0]
            st.place = st.rv = st.span = st.ty = st.extra = None
            if s[0] == "=":
                st.place = Place(s[1])
                st.rv = self._rv(s[2])
                st.span = c.span(s[3])
                st.ty = c.types[s[4]]
            elif s[0] == "setdisc":
                st.place = Place(s[1])
                st.extra = s[2]
                st.span = c.span(s[3])
                st.ty = c.types[s[4]]
            else:
                st.extra = s[1]
                st.span = c.span(s[2])
            b.stmts.append(st)
        t = raw[1]
        k = t[0]
        tm = Term(k)
        if k == "goto":
            tm.target = t[1]
        elif k == "switch":
            tm.discr = self._op(t[1])
            tm.arms = [(v, bb) for v, bb in t[2]]
            tm.otherwise = t[3]
            tm.span = c.span(t[4])
        elif k == "return":
            tm.span = c.span(t[1])
        elif k == "drop":
            tm.place = Place(t[1])
            tm.target = t[2]
            tm.unwind = t[3]
            tm.span = c.span(t[4])
        elif k == "call":
            tm.callee = self._callee(t[1])
            tm.args = [self._op(a) for a in t[2]]
            tm.dest = Place(t[3])
            tm.target = t[4]
            tm.unwind = t[5]
            tm.span = c.span(t[6])
            tm.fnspan = c.span(t[7])
        elif k == "tailcall":
            tm.callee = self._callee(t[1])
            tm.args = [self._op(a) for a in t[2]]
            tm.span = c.span(t[3])
        elif k == "assert":
            tm.cond = self._op(t[1])
            tm.expected = t[2]
            m = t[3]
            tm.msg = [m[0]] + [self._op(x) if isinstance(x, list) else x for x in m[1:]]
            tm.target = t[4]
            tm.unwind = t[5]
            tm.span = c.span(t[6])
        elif k == "yield":
            tm.target = t[1]
        b.term = tm
        return b

    # ---- CFG
    def succs(self, bb, unwind=False):
        return self.blocks[bb].term.succs(unwind)

    def preds(self):
        if self._preds is None:
            p = defaultdict(list)
            for i, b in enumerate(self.blocks):
                for s in b.term.succs(False):
                    p[s].append(i)
            self._preds = p
        return self._preds

    def reachable(self, start=0, unwind=False):
        seen = {start}
        q = [start]
        while q:
            b = q.pop()
            for s in self.succs(b, unwind):
                if s not in seen:
                    seen.add(s)
                    q.append(s)
        return seen

    def dominators(self):
        """dict bb -> set of dominators (normal edges only, from bb0)."""
        if self._dom is None:
            self._dom = _dominators(len(self.blocks), 0, lambda b: self.succs(b))
        return self._dom

    def dominates(self, a, b):
        d = self.dominators()
        return b in d and a in d[b]

    def exits(self):
        return [i for i, b in enumerate(self.blocks)
                if b.term.kind in ("return", "tailcall") and not b.cleanup]

    def postdominators(self):
        """dict bb -> set of post-dominators w.r.t. normal returns (virtual exit)."""
        if self._pdom is None:
            n = len(self.blocks)
            preds = self.preds()
            EXIT = n
            rsucc = lambda b: (self.exits() if b == EXIT else preds.get(b, []))
            self._pdom = _dominators(n + 1, EXIT, rsucc)
        return self._pdom

    def postdominates(self, a, b):
        d = self.postdominators()
        return b in d and a in d[b]

    def calls(self):
        for i, b in enumerate(self.blocks):
            if b.term.kind in ("call", "tailcall"):
                yield i, b.term

    def local_ty(self, l):
        return self.locals[l][0]

    def local_name(self, l):
        return self.locals[l][1]

    def dump(self):
        out = []
        for i, (t, n) in enumerate(self.locals):
            out.append("  let _%d: %s; // %s" % (i, t, n))
        for i, b in enumerate(self.blocks):
            out.append(" bb%d%s:" % (i, " (cleanup)" if b.cleanup else ""))
            for s in b.stmts:
                out.append("    %r   // %r" % (s, s.span))
            out.append("    %r   // %r" % (b.term, b.term.span))
        return "\n".join(out)


def _dominators(n, entry, succs):
    # iterative set-based; bodies are small
    order = []
    seen = {entry}
    stack = [(entry, iter(succs(entry)))]
    while stack:
        b, it = stack[-1]
        adv = False
        for s in it:
            if s not in seen:
                seen.add(s)
                stack.append((s, iter(succs(s))))
                adv = True
                break
        if not adv:
            order.append(b)
            stack.pop()
    rpo = order[::-1]
    preds = defaultdict(list)
    for b in rpo:
        for s in succs(b):
            if s in seen:
                preds[s].append(b)
    idx = {b: i for i, b in enumerate(rpo)}
    idom = {entry: entry}
    changed = True
    while changed:
        changed = False
        for b in rpo[1:]:
            new = None
            for p in preds[b]:
                if p in idom:
                    if new is None:
                        new = p
                    else:
                        a, c = p, new
                        while a != c:
                            while idx[a] > idx[c]:
                                a = idom[a]
                            while idx[c] > idx[a]:
                                c = idom[c]
                        new = a
            if new is not None and idom.get(b) != new:
                idom[b] = new
                changed = True
    dom = {}
    for b in rpo:
        s = {b}
        x = b
        while x != entry:
            x = idom[x]
            s.add(x)
        dom[b] = s
    return dom


class Fn:
    def __init__(self, crate, raw):
        self.crate = crate
        self.raw = raw
        N = crate.names
        T = crate.types
        self.id = N[raw["id"]]
        self.p = N[raw["p"]]
        self.kind = raw["kind"]
        self.span = crate.span(raw["span"])
        self.bodyspan = crate.span(raw["bodyspan"])
        self.constfn = raw.get("constfn", False)
        self.vis = raw.get("vis")
        self.exported = raw.get("exported", False)
        self.inputs = [T[t] for t in raw.get("inputs", [])]
        self.output = T[raw["output"]] if "output" in raw else None
        self.argnames = raw.get("argnames", [])
        self.impl = N[raw["impl"]] if "impl" in raw else None
        self.self_ty = T[raw["self"]] if "self" in raw else None
        self.trait = N[raw["trait"]] if "trait" in raw else None
        self.trait_method = N[raw["trait_method"]] if "trait_method" in raw else None
        self.in_trait = N[raw["in_trait"]] if "in_trait" in raw else None
        self.preds = raw.get("preds", [])
        self.root = N[raw["root"]] if "root" in raw else None
        self.parent = N[raw["parent"]] if "parent" in raw else None
        self.upvar_tys = [T[t] for t in raw.get("upvar_tys", [])]
        self._body = None
        self._promoted = None

    @property
    def body(self):
        if self._body is None:
            self._body = Body(self.crate, self.raw["mir"], self)
        return self._body

    @property
    def promoted(self):
        if self._promoted is None:
            self._promoted = [Body(self.crate, r, self, i)
                              for i, r in enumerate(self.raw.get("promoted", []))]
        return self._promoted

    @property
    def derived(self):
        """expanded from a derive / attribute macro (span of the item is in an expansion)"""
        return bool(self.span.macros)

    def is_closure(self):
        return self.kind == "Closure"

    def __repr__(self):
        return "<fn %s @%s>" % (self.p, self.span.loc())


_NORM = re.compile(r"\b(?:[a-z_0-9]+::)?(?:std|alloc|core)::")


def _norm(s):
    return _NORM.sub("core::", s)


class Crate:
    def __init__(self, path):
        with open(path) as f:
            raw = json.load(f)
        self.name = raw["crate"]
        self.cfg = raw["cfg"]
        # one canonical spelling for std/alloc/core re-exports (the printed path depends on
        # which facade the crate happens to see)
        self.types = [_norm(t) for t in raw["types"]]
        self.names = [_norm(t) for t in raw["names"]]
        self._spans_raw = raw["spans"]
        self._spans = {}
        N = self.names
        T = self.types
        self.fns = {}
        for r in raw["fns"]:
            f = Fn(self, r)
            self.fns[f.id] = f
        self.adts = {}
        for a in raw["adts"]:
            d = {
                "p": N[a["p"]], "kind": a["kind"], "vis": a["vis"], "exported": a["exported"],
                "span": self.span(a["span"]),
                "variants": [
                    {"name": v[0], "ctor": v[1],
                     "fields": [{"name": f[0], "vis": f[1], "ty": T[f[2]]} for f in v[2]]}
                    for v in a["variants"]],
            }
            self.adts[d["p"]] = d
        self.consts = {}
        for c in raw["consts"]:
            d = {"p": N[c["p"]], "ty": T[c["ty"]], "span": self.span(c["span"])}
            for k in ("v", "str", "bytes"):
                if k in c:
                    d[k] = c[k]
            self.consts[d["p"]] = d
        self.traits = {}
        for t in raw["traits"]:
            self.traits[N[t["p"]]] = [(m[0], N[m[1]], m[2]) for m in t["methods"]]
        self.impls = []
        for i in raw["impls"]:
            self.impls.append({
                "id": N[i["id"]], "self": T[i["self"]],
                "trait": N[i["trait"]] if "trait" in i else None,
                "trait_full": i.get("trait_full"),
                "methods": [(m[0], N[m[1]], N[m[2]] if m[2] is not None else None)
                            for m in i["methods"]],
                "span": self.span(i["span"]),
            })

    def span(self, i):
        s = self._spans.get(i)
        if s is None:
            s = Span(self._spans_raw[i])
            self._spans[i] = s
        return s


class World:
    """All loaded crates + call graph."""

    def __init__(self, facts_dir, crates=None):
        self.dir = facts_dir
        self.crates = {}
        names = sorted(f[:-5] for f in os.listdir(facts_dir) if f.endswith(".json"))
        for n in names:
            if crates is None or n in crates:
                self.crates[n] = Crate(os.path.join(facts_dir, n + ".json"))
        self.fns = {}
        for c in self.crates.values():
            self.fns.update(c.fns)
        self.by_p = defaultdict(list)
        for f in self.fns.values():
            self.by_p[f.p].append(f)
        # CHA tables
        self.trait_impls = defaultdict(list)  # trait method uid -> [impl method uid]
        for c in self.crates.values():
            for i in c.impls:
                for (_n, mid, tm) in i["methods"]:
                    if tm is not None:
                        self.trait_impls[tm].append(mid)
        self.adts = {}
        self.consts = {}
        for c in self.crates.values():
            self.adts.update(c.adts)
            self.consts.update(c.consts)
        self._edges = None

    def fn(self, pretty):
        """unique fn by pretty path (raises if ambiguous / missing)"""
        l = self.by_p.get(pretty, [])
        if len(l) != 1:
            raise KeyError("fn %r: %d matches" % (pretty, len(l)))
        return l[0]

    def find(self, regex):
        r = re.compile(regex)
        return [f for f in self.fns.values() if r.search(f.p)]

    # ---- call graph
    def call_targets(self, term, include_closures=True):
        """Workspace-local fn uids a call terminator may invoke (resolved, CHA, closures)."""
        ce = term.callee
        out = []
        if ce.indirect is not None:
            return out
        tid = ce.target_id()
        if tid in self.fns:
            out.append(tid)
        if (ce.unres or ce.rk == "virtual") and ce.id in self.trait_impls:
            for m in self.trait_impls[ce.id]:
                if m in self.fns:
                    out.append(m)
        elif ce.unres and ce.id in self.fns:
            pass
        if include_closures:
            for c in ce.closures or ():
                if c in self.fns:
                    out.append(c)
        return out

    def edges(self):
        """fn uid -> list of (bb, term, [target uids]) ; plus closure-creation edges"""
        if self._edges is None:
            e = {}
            for f in self.fns.values():
                lst = []
                for bb, t in f.body.calls():
                    tg = self.call_targets(t)
                    lst.append((bb, t, tg))
                # closures created here (aggregate) and fn items mentioned as values
                extra = set()
                for b in f.body.blocks:
                    for s in b.stmts:
                        if s.kind == "=" and s.rv.kind == "agg" and s.rv.agg[0] == "closure":
                            if s.rv.agg[1] in self.fns:
                                extra.add(s.rv.agg[1])
                        if s.kind == "=":
                            for o in s.rv.ops:
                                if o.kind == "const" and "fn" in o.info:
                                    if o.info["fn"] in self.fns:
                                        extra.add(o.info["fn"])
                                    for c in o.info.get("closures", ()):
                                        if c in self.fns:
                                            extra.add(c)
                    if b.term.kind in ("call", "tailcall"):
                        for o in b.term.args:
                            if o.kind == "const" and "fn" in o.info:
                                if o.info["fn"] in self.fns:
                                    extra.add(o.info["fn"])
                                for c in o.info.get("closures", ()):
                                    if c in self.fns:
                                        extra.add(c)
                e[f.id] = (lst, extra)
            self._edges = e
        return self._edges

    def callees(self, fid):
        lst, extra = self.edges()[fid]
        s = set(extra)
        for _bb, _t, tg in lst:
            s.update(tg)
        return s

    def reach(self, roots, stop=lambda fid: False):
        """set of fn uids reachable from roots; returns (set, parent map for paths)"""
        seen = set()
        parent = {}
        q = deque()
        for r in roots:
            if r in self.fns and r not in seen:
                seen.add(r)
                parent[r] = None
                q.append(r)
        while q:
            f = q.popleft()
            if stop(f):
                continue
            for g in sorted(self.callees(f)):
                if g not in seen:
                    seen.add(g)
                    parent[g] = f
                    q.append(g)
        return seen, parent

    def path_to(self, parent, fid):
        p = []
        while fid is not None:
            p.append(fid)
            fid = parent.get(fid)
        return p[::-1]


# ----------------------------------------------------------------------------- helpers

_SRC_CACHE = {}


def source_lines(repo, file):
    key = (repo, file)
    if key not in _SRC_CACHE:
        p = file if os.path.isabs(file) else os.path.join(repo, file)
        try:
            with open(p, encoding="utf-8", errors="replace") as f:
                _SRC_CACHE[key] = f.read().split("\n")
        except OSError:
            _SRC_CACHE[key] = []
    return _SRC_CACHE[key]


def fn_source(repo, fn):
    ls = source_lines(repo, fn.bodyspan.file)
    return "\n".join(ls[fn.span.line - 1: fn.bodyspan.endline])
