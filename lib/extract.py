"""extract — run the zfacts driver over /repo's CURRENT working tree (cached by tree hash).

Every check calls `facts_dir(config)` first. The tree hash covers every source-relevant file
under the repo (excluding target/), so an edited tree is always re-extracted; a missing fact
file is a hard error (exit 2), never a pass.
"""
import fcntl
import hashlib
import os
import shutil
import subprocess
import sys
import time

VERIF = os.path.dirname(os.path.dirname(os.path.abspath(__file__)))
REPO = os.environ.get("VERIF_REPO", "/repo")
CACHE = os.path.join(VERIF, ".cache")
ZFACTS_DIR = os.path.join(VERIF, "zfacts")
ZFACTS_BIN = os.path.join(ZFACTS_DIR, "target", "release", "zfacts")

HASH_EXT = (".rs", ".toml", ".lock", ".proto", ".sql")

# build configurations (cargo args) a rule may ask for
CONFIGS = {
    "all": ["--workspace", "--all-features"],
    "default": ["--workspace"],
}

WORKSPACE_CRATES = [
    "eip681", "equihash", "f4jumble", "pczt", "zcash_address", "zcash_client_backend",
    "zcash_client_sqlite", "zcash_encoding", "zcash_history", "zcash_keys",
    "zcash_pool_migration", "zcash_pool_migration_memory", "zcash_primitives",
    "zcash_proofs", "zcash_protocol", "zcash_transparent", "zip321",
]


def infra_fail(msg):
    sys.stderr.write("INFRASTRUCTURE FAILURE: %s\n" % msg)
    print("INFRASTRUCTURE FAILURE: %s" % msg)
    sys.exit(2)


def tree_hash(repo=None):
    repo = repo or REPO
    h = hashlib.sha256()
    files = []
    for root, dirs, fs in os.walk(repo):
        dirs[:] = sorted(d for d in dirs if d not in ("target", ".git"))
        for f in sorted(fs):
            if f.endswith(HASH_EXT):
                files.append(os.path.join(root, f))
    for p in files:
        h.update(os.path.relpath(p, repo).encode())
        h.update(b"\0")
        try:
            with open(p, "rb") as fh:
                h.update(hashlib.sha256(fh.read()).digest())
        except OSError:
            h.update(b"?")
    try:
        with open(ZFACTS_BIN, "rb") as fh:
            h.update(hashlib.sha256(fh.read()).digest())
    except OSError:
        pass
    return h.hexdigest()[:24], len(files)


def nightly_sysroot():
    return subprocess.check_output(["rustc", "+nightly", "--print", "sysroot"],
                                   cwd=ZFACTS_DIR, text=True).strip()


def build_zfacts():
    env = dict(os.environ, CARGO_NET_OFFLINE="true")
    r = subprocess.run(["cargo", "+nightly", "build", "--release", "--offline"],
                       cwd=ZFACTS_DIR, env=env, stdout=subprocess.PIPE,
                       stderr=subprocess.STDOUT, text=True)
    if r.returncode != 0 or not os.path.exists(ZFACTS_BIN):
        infra_fail("building zfacts failed:\n" + r.stdout[-3000:])


def _clear_member_fingerprints(target):
    fp = os.path.join(target, "debug", ".fingerprint")
    if not os.path.isdir(fp):
        return
    pkgs = set(WORKSPACE_CRATES) | {"zcash"}
    for d in os.listdir(fp):
        name = d.rsplit("-", 1)[0].replace("-", "_")
        if name in pkgs:
            shutil.rmtree(os.path.join(fp, d), ignore_errors=True)


def facts_dir(config="all", repo=None, quiet=False):
    """Return the directory holding fresh facts for the repo's current tree. VERIF_CONFIG overrides
    the build configuration (used by the thorough tier's second pass over the default features)."""
    config = os.environ.get("VERIF_CONFIG") or config
    repo = repo or REPO
    os.makedirs(CACHE, exist_ok=True)
    if not os.path.exists(ZFACTS_BIN):
        build_zfacts()
    th, nfiles = tree_hash(repo)
    out = os.path.join(CACHE, "facts-%s-%s" % (config, th))
    stamp = os.path.join(out, "OK")
    lockf = open(os.path.join(CACHE, "extract-%s.lock" % config), "w")
    fcntl.flock(lockf, fcntl.LOCK_EX)
    try:
        if os.path.exists(stamp):
            return out
        t0 = time.time()
        if os.path.isdir(out):
            shutil.rmtree(out)
        os.makedirs(out)
        # a scratch copy of the repo gets its own target dir (removed by the caller)
        if os.path.realpath(repo) == os.path.realpath("/repo"):
            target = os.path.join(CACHE, "target-%s" % config)
        else:
            target = os.path.join(repo, "target-zfacts-%s" % config)
        _clear_member_fingerprints(target)
        env = dict(os.environ)
        env.update({
            "LD_LIBRARY_PATH": os.path.join(nightly_sysroot(), "lib"),
            "RUSTFLAGS": "-Zmir-opt-level=0 -Awarnings",
            "RUSTC_WORKSPACE_WRAPPER": ZFACTS_BIN,
            "ZFACTS_OUT": out,
            "CARGO_TARGET_DIR": target,
            "CARGO_NET_OFFLINE": "true",
        })
        env.pop("RUSTC_WRAPPER", None)
        cmd = ["cargo", "+nightly", "check", "--offline"] + CONFIGS[config]
        r = subprocess.run(cmd, cwd=repo, env=env, stdout=subprocess.PIPE,
                           stderr=subprocess.STDOUT, text=True)
        if r.returncode != 0:
            tail = "\n".join(r.stdout.splitlines()[-60:])
            shutil.rmtree(out, ignore_errors=True)
            infra_fail("cargo check of %s (config %s) failed — the tree does not compile:\n%s"
                       % (repo, config, tail))
        missing = [c for c in WORKSPACE_CRATES
                   if not os.path.exists(os.path.join(out, c + ".json"))]
        if missing:
            shutil.rmtree(out, ignore_errors=True)
            infra_fail("zfacts produced no fact file for: %s" % ", ".join(missing))
        with open(stamp, "w") as f:
            f.write("tree=%s files=%d wall=%.1f\n" % (th, nfiles, time.time() - t0))
        if not quiet:
            sys.stderr.write("[extract] %s: %d source files hashed, facts in %.1fs\n"
                             % (config, nfiles, time.time() - t0))
        _gc(keep=out, config=config)
        return out
    finally:
        fcntl.flock(lockf, fcntl.LOCK_UN)
        lockf.close()


def _gc(keep, config, maxkeep=4):
    """keep the cache small: at most `maxkeep` fact dirs per config"""
    ds = []
    for d in os.listdir(CACHE):
        if d.startswith("facts-%s-" % config):
            p = os.path.join(CACHE, d)
            ds.append((os.path.getmtime(p), p))
    ds.sort(reverse=True)
    for _, p in ds[maxkeep:]:
        if p != keep:
            shutil.rmtree(p, ignore_errors=True)


if __name__ == "__main__":
    cfg = sys.argv[1] if len(sys.argv) > 1 else "all"
    print(facts_dir(cfg))
