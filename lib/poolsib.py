"""poolsib (E5) — consistent-renaming analysis over sibling code for a tag family.

The Sapling / Orchard / Ironwood code paths are written by copy-paste-and-rename.  Two code
segments of the same function (statements, match arms, call arguments, struct-literal fields,
nested blocks — any depth) whose token skeletons are equal after abstracting tagged identifiers
are *siblings*; the position-wise map between their tags must be a function (all Orchard ->
Ironwood, never Orchard -> Ironwood at one position and Orchard -> Orchard at another).
An unchanged tagged identifier inside an otherwise renamed sibling is neutral only if its
renamed counterpart does not exist anywhere in the analysed sources (Ironwood deliberately
reuses Orchard-shaped types), or both are constants with equal values.
Source tokens are lexed (comments/strings skipped), never executed.
"""
import os
import re

TOKEN = re.compile(r"""
    (?P<ws>\s+)
  | (?P<lc>//[^\n]*)
  | (?P<bc>/\*.*?\*/)
  | (?P<rstr>b?r(?P<h>\#*)".*?"(?P=h))
  | (?P<str>b?"(?:[^"\\]|\\.)*")
  | (?P<chr>b?'(?:[^'\\\n]|\\.)')
  | (?P<life>'[A-Za-z_][A-Za-z_0-9]*)
  | (?P<num>\d[\dA-Za-z_.]*)
  | (?P<id>[A-Za-z_][A-Za-z_0-9]*!?)
  | (?P<op>::|->|=>|==|!=|<=|>=|&&|\|\||\.\.=|\.\.|<<|>>|\+=|-=|\*=|/=|\|=|&=|\^=|[-+*/%^!&|=<>@.,;:#$?~(){}\[\]])
""", re.X | re.S)

OPEN = {"(": ")", "[": "]", "{": "}"}
CLOSE = {")", "]", "}"}


def lex(src):
    """list of (kind, text, line)"""
    out = []
    pos = 0
    line = 1
    n = len(src)
    while pos < n:
        m = TOKEN.match(src, pos)
        if not m:
            pos += 1
            continue
        k = m.lastgroup
        t = m.group(0)
        if k == "h":
            k = "rstr"
        if k not in ("ws", "lc", "bc"):
            kind = {"rstr": "str", "chr": "str"}.get(k, k)
            out.append((kind, t if kind != "str" else '"…"', line))
        line += t.count("\n")
        pos = m.end()
    return out


class Family:
    """a tag family: name -> list of spellings (lowercase component words)"""

    def __init__(self, tags):
        self.tags = tags            # {"S": "sapling", "O": "orchard", "I": "ironwood"}
        self.words = {v: k for k, v in tags.items()}
        alt = "|".join(tags.values())
        self.rx = re.compile(r"(?i)(?<![A-Za-z])(%s)(?![a-z])|(?<=[a-z_0-9])(%s)(?![a-z])"
                             % (alt, "|".join(w.capitalize() for w in tags.values())))

    def tag_of(self, ident):
        """(tag, skeleton) of an identifier: tag if exactly one family word occurs in it"""
        found = []
        for comp in split_ident(ident):
            lw = comp.lower()
            if lw in self.words:
                found.append(self.words[lw])
        if len(set(found)) == 1:
            return found[0]
        return None

    def abstract(self, ident):
        comps = split_ident(ident)
        return "".join("§" if c.lower() in self.words else c for c in comps)

    def rename(self, ident, frm, to):
        out = []
        for c in split_ident(ident):
            if c.lower() == self.tags[frm]:
                w = self.tags[to]
                if c.isupper():
                    w = w.upper()
                elif c[0].isupper():
                    w = w.capitalize()
                out.append(w)
            else:
                out.append(c)
        return "".join(out)


_SPLIT = re.compile(r"[A-Z]+(?![a-z])|[A-Z][a-z0-9]*|[a-z0-9]+|_+|!")


def split_ident(s):
    return _SPLIT.findall(s)


# ----------------------------------------------------------------------------- token tree
def fn_items(tokens):
    """yield (name, start_index, end_index) of fn items with a body (nested fns included)"""
    i = 0
    n = len(tokens)
    while i < n:
        if tokens[i][1] == "fn" and i + 1 < n and tokens[i + 1][0] == "id":
            name = tokens[i + 1][1]
            j = i + 2
            depth = 0
            # find body '{' at paren/bracket depth 0 (skip generics/params/where)
            while j < n:
                t = tokens[j][1]
                if t in ("(", "["):
                    depth += 1
                elif t in (")", "]"):
                    depth -= 1
                elif t == ";" and depth == 0:
                    break
                elif t == "{" and depth == 0:
                    break
                j += 1
            if j < n and tokens[j][1] == "{":
                d = 0
                k = j
                while k < n:
                    if tokens[k][1] == "{":
                        d += 1
                    elif tokens[k][1] == "}":
                        d -= 1
                        if d == 0:
                            break
                    k += 1
                yield name, i, k
            i = j if j > i else i + 1
        else:
            i += 1


def segments(tokens, lo, hi):
    """all segments (index ranges) at every nesting depth inside tokens[lo:hi+1]"""
    segs = []

    def group(a, b):
        # tokens[a] is an opener, tokens[b] its closer; split the inside
        start = a + 1
        i = a + 1
        while i < b:
            t = tokens[i][1]
            if t in OPEN:
                j = match(i, b)
                group(i, j)
                # a `{}` group that ends a statement
                nxt = tokens[j + 1][1] if j + 1 < b else None
                if t == "{" and tokens[a][1] == "{" and nxt is not None and \
                        nxt not in (".", "?", ")", ",", ";", "else", "=>", "as", "==", "!=", "&&",
                                    "||", "+", "-", "*", "/", "]", "}"):
                    segs.append((start, j))
                    start = j + 1
                i = j + 1
                continue
            if t in (";", ","):
                if i > start:
                    segs.append((start, i - 1))
                start = i + 1
            i += 1
        if b > start:
            segs.append((start, b - 1))

    def match(i, limit):
        d = 0
        j = i
        while j <= limit:
            t = tokens[j][1]
            if t in OPEN:
                d += 1
            elif t in CLOSE:
                d -= 1
                if d == 0:
                    return j
            j += 1
        return limit
    # the fn body
    i = lo
    while i <= hi and tokens[i][1] != "{":
        if tokens[i][1] in ("(", "["):
            j = match(i, hi)
            group(i, j)
            i = j
        i += 1
    if i <= hi:
        group(i, match(i, hi))
    return segs


_TESTMOD = re.compile(r"#\[cfg\((?:test|all\(test[^\]]*|any\(test[^\]]*)\)\]\s*"
                      r"(?:#\[[^\]]*\]\s*)*(?:pub(?:\(crate\))?\s+)?mod\s+\w+\s*\{")


def strip_test_modules(src):
    """blank out (keeping line numbers) every `#[cfg(test...)] mod x { ... }` block"""
    out = src
    pos = 0
    while True:
        m = _TESTMOD.search(out, pos)
        if not m:
            return out
        i = m.end()
        depth = 1
        n = len(out)
        while i < n and depth:
            c = out[i]
            if c == "{":
                depth += 1
            elif c == "}":
                depth -= 1
            elif c == '"':
                # skip string literal
                i += 1
                while i < n and out[i] != '"':
                    if out[i] == "\\":
                        i += 1
                    i += 1
            elif c == "/" and out[i:i + 2] == "//":
                while i < n and out[i] != "\n":
                    i += 1
                continue
            i += 1
        blank = "".join(ch if ch == "\n" else " " for ch in out[m.start():i])
        out = out[:m.start()] + blank + out[i:]
        pos = i


class Analyzer:
    def __init__(self, repo, family, namespace_dirs):
        self.repo = repo
        self.fam = family
        self.namespace = set()
        self.qualified = set()
        self.const_vals = {}
        for d in namespace_dirs:
            for root, dirs, files in os.walk(os.path.join(repo, d)):
                dirs[:] = [x for x in dirs if x not in ("target", ".git")]
                for fn in files:
                    if fn.endswith(".rs"):
                        try:
                            src = open(os.path.join(root, fn), encoding="utf-8", errors="replace").read()
                        except OSError:
                            continue
                        for m in re.finditer(r"[A-Za-z_][A-Za-z_0-9]*", src):
                            self.namespace.add(m.group(0))
                        for m in re.finditer(r"([A-Za-z_][A-Za-z_0-9]*)\s*::\s*([A-Za-z_][A-Za-z_0-9]*)", src):
                            self.qualified.add((m.group(1), m.group(2)))
                        for m in re.finditer(r"const\s+([A-Z_0-9]+)\s*:\s*[\w:<>]+\s*=\s*([^;]+);", src):
                            self.const_vals.setdefault(m.group(1), m.group(2).strip())

    def file_pairs(self, relpath, strip_tests=True):
        """list of findings and the number of sibling pairs examined in one file"""
        p = os.path.join(self.repo, relpath)
        try:
            src = open(p, encoding="utf-8", errors="replace").read()
        except OSError:
            return None, 0, 0
        if strip_tests:
            src = strip_test_modules(src)
        toks = lex(src)
        findings = []
        npairs = 0
        nsegs = 0
        fam = self.fam
        for name, a, b in fn_items(toks):
            segs = segments(toks, a, b)
            members_all = []
            for (s, e) in segs:
                if e - s + 1 < 3:
                    continue
                skel = []
                tags = []       # per token: tag or None
                for i in range(s, e + 1):
                    k, t, _ln = toks[i]
                    tg = None
                    if k == "id":
                        tg = fam.tag_of(t)
                        # crate paths `sapling::` / `orchard::` are neutral
                        if tg and i + 1 <= e and toks[i + 1][1] == "::" and t.islower() and \
                                t in fam.tags.values():
                            tg = None
                    skel.append(fam.abstract(t) if tg else t)
                    tags.append(tg)
                if not any(tags):
                    continue
                nsegs += 1
                shape = tuple(toks[i][0] if toks[i][0] in ("id", "num", "str", "life") else toks[i][1]
                              for i in range(s, e + 1))
                members_all.append((s, e, skel, tags, shape))
            buckets = {}
            for m in members_all:
                buckets.setdefault(m[4], []).append(m)
            for shape, members in buckets.items():
                if len(members) < 2:
                    continue
                for x in range(len(members)):
                    for y in range(x + 1, len(members)):
                        A, B = members[x], members[y]
                        if (A[0] <= B[0] and B[1] <= A[1]) or (B[0] <= A[0] and A[1] <= B[1]):
                            continue
                        n = len(A[2])
                        same = sum(1 for u, v in zip(A[2], B[2]) if u == v)
                        if same < n * 0.8 or n - same > 6:
                            continue
                        # positions tagged on both sides
                        both = [i for i in range(n) if A[3][i] and B[3][i]]
                        if len(both) < 1:
                            continue
                        ta = [A[3][i] for i in both]
                        tb = [B[3][i] for i in both]
                        ia = [(toks[A[0] + i][1], A[0] + i) for i in both]
                        ib = [(toks[B[0] + i][1], B[0] + i) for i in both]
                        if ta == tb and [q[0] for q in ia] == [q[0] for q in ib]:
                            continue
                        npairs += 1
                        findings.extend(self.compare(relpath, name, toks, (A[0], A[1], ta, ia),
                                                     (B[0], B[1], tb, ib)))
                        findings.extend(self.compare(relpath, name, toks, (B[0], B[1], tb, ib),
                                                     (A[0], A[1], ta, ia)))
        # dedupe nested reports (same identifier token reported through enclosing segments)
        seen = set()
        out = []
        for f in findings:
            k = (f["fn"], f["ident"], f["line"])
            if k not in seen:
                seen.add(k)
                out.append(f)
        return out, npairs, nsegs

    def compare(self, relpath, fname, toks, A, B):
        fam = self.fam
        tagsA, tagsB = A[2], B[2]
        mapping = {}
        for ta, tb in zip(tagsA, tagsB):
            mapping.setdefault(ta, set()).add(tb)
        out = []
        bad = {ta for ta, s in mapping.items() if len(s) > 1}
        if not bad:
            return out
        for ta in bad:
            # the majority image is the intended renaming; minority positions are suspects
            counts = {}
            for x, y in zip(tagsA, tagsB):
                if x == ta:
                    counts[y] = counts.get(y, 0) + 1
            intended = max(counts, key=lambda k: (counts[k], k != ta))
            if intended == ta:
                # mostly unchanged, a few renamed: suspects are in the other direction
                others = [k for k in counts if k != ta]
                intended = others[0]
                minority_is_renamed = True
            else:
                minority_is_renamed = False
            for pos, (x, y) in enumerate(zip(tagsA, tagsB)):
                if x != ta:
                    continue
                ia, ib = A[3][pos], B[3][pos]
                if y == intended and not minority_is_renamed:
                    continue
                if y != intended and minority_is_renamed:
                    continue
                # suspect position: identifier in B carries tag y where `intended` was expected
                if minority_is_renamed:
                    # A and B mostly agree on ta; this position is renamed in B: the suspect is
                    # A's unchanged majority? no — report only unchanged-in-renamed cases
                    continue
                ident = ib[0]
                want = fam.rename(ia[0], ta, intended)
                if ident == want:
                    continue
                # neutral: counterpart does not exist, or constants of equal value
                if want not in self.namespace:
                    continue
                # a path-qualified identifier (`Note::Orchard`) is neutral if `Note::Ironwood`
                # occurs nowhere
                ti = ib[1]
                if ti >= 2 and toks[ti - 1][1] == "::" and toks[ti - 2][0] == "id":
                    if (toks[ti - 2][1], want) not in self.qualified:
                        continue
                if ident in self.const_vals and want in self.const_vals:
                    va, vb = self.const_vals[ident], self.const_vals[want]
                    if va == vb or fam.rename(va, y, intended) == vb or va == ident or vb == ident:
                        continue
                out.append({
                    "file": relpath, "fn": fname, "line": toks[ib[1]][2], "ident": ident,
                    "expected": want, "sibling_line": toks[ia[1]][2],
                    "msg": "`%s` in the %s sibling of the code at line %d: every other tagged "
                           "identifier is renamed %s->%s, and `%s` exists"
                           % (ident, fam.tags[intended], toks[ia[1]][2], fam.tags[ta],
                              fam.tags[intended], want)})
        return out


# ----------------------------------------------------------------------------- PS-2
ALLOWED_UNTAGGED = {("Nu5", "Nu6_3"), ("nu5_activation", "nu6_3_activation"),
                    ("NU5", "NU6_3")}


def _bound_in(toks, s, e, ident):
    """the identifier is introduced inside the segment (let / closure parameter / for pattern)"""
    i = s
    depth_pipe = False
    while i <= e:
        k, t, _ln = toks[i]
        if t == ident and k == "id":
            j = i - 1
            while j >= s and toks[j][1] in ("mut", "(", ",", "&", "ref"):
                j -= 1
            if j >= s and toks[j][1] in ("let", "for", "|"):
                return True
            # inside closure parameter pipes: |a, (b, c)|
            back = [toks[x][1] for x in range(max(s, i - 12), i)]
            if back.count("|") % 2 == 1:
                return True
            # in the pattern of a match arm: before the segment's first `=>`
            arrow = next((x for x in range(s, e + 1) if toks[x][1] == "=>"), None)
            if arrow is not None and i < arrow:
                return True
        i += 1
    return False


def untagged_differences(an, relpath, A_tag="O", B_tag="I", strip_tests=True):
    """Orchard/Ironwood sibling segments must be equal token for token once the pool words are
    abstracted.  For every segment tagged only with B_tag, the most similar same-shaped segment
    tagged only with A_tag in the same function is its sibling; differing untagged IDENTIFIERS are
    reported unless the identifier is bound inside the segment (a consistently renamed local) or
    the pair is a known pool-specific name pair.  Returns (findings, pairs examined)."""
    p = os.path.join(an.repo, relpath)
    try:
        src = open(p, encoding="utf-8", errors="replace").read()
    except OSError:
        return None, 0
    if strip_tests:
        src = strip_test_modules(src)
    toks = lex(src)
    fam = an.fam
    out = []
    npairs = 0
    for name, a, b in fn_items(toks):
        mem = []
        for (s, e) in segments(toks, a, b):
            if e - s + 1 < 6:
                continue
            tags, skel = [], []
            for i in range(s, e + 1):
                k, t, _ln = toks[i]
                tg = fam.tag_of(t) if k == "id" else None
                if tg and i + 1 <= e and toks[i + 1][1] == "::" and t.islower() and t in fam.tags.values():
                    tg = None
                tags.append(tg)
                skel.append(fam.abstract(t) if tg else t)
            ts = {t for t in tags if t}
            if len(ts) != 1:
                continue
            shape = tuple(toks[i][0] if toks[i][0] in ("id", "num", "str", "life") else toks[i][1]
                          for i in range(s, e + 1))
            mem.append((s, e, skel, tags, shape, next(iter(ts))))
        used = {A_tag: set(), B_tag: set()}
        for m in mem:
            if m[5] in used:
                used[m[5]].update(toks[i][1] for i in range(m[0], m[1] + 1) if toks[i][0] == "id")
        for Bm in [m for m in mem if m[5] == B_tag]:
            best = None
            for Am in [m for m in mem if m[5] == A_tag and m[4] == Bm[4]]:
                if (Am[0] <= Bm[0] and Bm[1] <= Am[1]) or (Bm[0] <= Am[0] and Am[1] <= Bm[1]):
                    continue
                n = len(Am[2])
                same = sum(1 for u, v in zip(Am[2], Bm[2]) if u == v)
                if same < n * 0.8:
                    continue
                if best is None or same > best[0]:
                    best = (same, Am)
            if best is None:
                continue
            npairs += 1
            Am = best[1]
            for i in range(len(Am[2])):
                if Am[2][i] == Bm[2][i] or Am[3][i] or Bm[3][i]:
                    continue
                ka, ta_, la = toks[Am[0] + i]
                kb, tb_, lb = toks[Bm[0] + i]
                if ka != "id" or kb != "id":
                    continue            # literals / strings: column indices, messages
                if (ta_, tb_) in ALLOWED_UNTAGGED or (tb_, ta_) in ALLOWED_UNTAGGED:
                    continue
                if _bound_in(toks, Am[0], Am[1], ta_) and _bound_in(toks, Bm[0], Bm[1], tb_):
                    continue
                # each name is private to its own pool's code in this function and is a local of it
                if ta_ not in used[B_tag] and tb_ not in used[A_tag] and \
                        _bound_in(toks, a, b, ta_) and _bound_in(toks, a, b, tb_):
                    continue
                out.append({"file": relpath, "fn": name, "line": lb, "ident": tb_, "expected": ta_,
                            "sibling_line": la,
                            "msg": "`%s` in the %s code where its %s sibling (line %d) has `%s`: the two "
                                   "are otherwise the same code with the pool renamed"
                                   % (tb_, fam.tags[B_tag], fam.tags[A_tag], la, ta_)})
    seen, res = set(), []
    for f in out:
        k = (f["fn"], f["ident"], f["line"])
        if k not in seen:
            seen.add(k)
            res.append(f)
    return res, npairs
