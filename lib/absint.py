"""absint — a small forward abstract interpreter over zfacts MIR.

Domain (reduced product, all classic abstract-interpretation components):
  * integers: finite unions of intervals over Z (IntSet) + an optional *polynomial normal
    form* over immutable symbols (function inputs / unknown values), which gives exactness
    ("the value wrapped is exactly a+b") without executing anything;
  * a fact store  {polynomial -> IntSet}  refined at branches (comparisons, `contains`,
    checked ops) and joined at merge points;
  * enums (Option/Result/ControlFlow/...): per-variant payloads, each variant carrying the
    disjunction of fact stores under which it was constructed (trace partitioning by variant);
  * structs, references (snapshot + havoc on &mut escape), closures, function items.
Calls to functions whose body is in `scope` are analysed by inlining with the caller's abstract
arguments (bounded depth); a table of models covers the std functions the code uses; every other
callee returns Top of its result type and havocs what it can mutate.  Type invariants (e.g.
Zatoshis.0 in [0, MAX_MONEY]) are supplied by the client and are what Top(T) yields for such
types; the client proves them inductively at every construction site.

Nothing is executed and no solver is used: this is dataflow over the MIR CFG with joins.
"""
import re
from collections import defaultdict

INT_RANGE = {
    "u8": (0, 2**8 - 1), "u16": (0, 2**16 - 1), "u32": (0, 2**32 - 1),
    "u64": (0, 2**64 - 1), "u128": (0, 2**128 - 1), "usize": (0, 2**64 - 1),
    "i8": (-2**7, 2**7 - 1), "i16": (-2**15, 2**15 - 1), "i32": (-2**31, 2**31 - 1),
    "i64": (-2**63, 2**63 - 1), "i128": (-2**127, 2**127 - 1), "isize": (-2**63, 2**63 - 1),
}
NEG_INF = -(2**200)
POS_INF = 2**200


# ------------------------------------------------------------------------ integer sets
class IntSet:
    __slots__ = ("ivs",)

    def __init__(self, ivs):
        ivs = sorted((lo, hi) for lo, hi in ivs if lo <= hi)
        out = []
        for lo, hi in ivs:
            if out and lo <= out[-1][1] + 1:
                out[-1] = (out[-1][0], max(out[-1][1], hi))
            else:
                out.append((lo, hi))
        if len(out) > 6:
            out = [(out[0][0], out[-1][1])]
        self.ivs = tuple(out)

    @staticmethod
    def of(lo, hi):
        return IntSet([(lo, hi)])

    @staticmethod
    def ty(t):
        return IntSet([INT_RANGE[t]])

    @staticmethod
    def all():
        return IntSet([(NEG_INF, POS_INF)])

    def empty(self):
        return not self.ivs

    def lo(self):
        return self.ivs[0][0]

    def hi(self):
        return self.ivs[-1][1]

    def single(self):
        if len(self.ivs) == 1 and self.ivs[0][0] == self.ivs[0][1]:
            return self.ivs[0][0]
        return None

    def meet(self, o):
        out = []
        for a, b in self.ivs:
            for c, d in o.ivs:
                lo, hi = max(a, c), min(b, d)
                if lo <= hi:
                    out.append((lo, hi))
        return IntSet(out)

    def join(self, o):
        return IntSet(self.ivs + o.ivs)

    def complement(self):
        out = []
        cur = NEG_INF
        for a, b in self.ivs:
            if a > cur:
                out.append((cur, a - 1))
            cur = b + 1
        if cur <= POS_INF:
            out.append((cur, POS_INF))
        return IntSet(out)

    def subset(self, o):
        return self.meet(o).ivs == self.ivs

    def __eq__(self, o):
        return isinstance(o, IntSet) and self.ivs == o.ivs

    def __hash__(self):
        return hash(self.ivs)

    def _bin(self, o, f):
        out = []
        for a, b in self.ivs:
            for c, d in o.ivs:
                vs = [f(x, y) for x in (a, b) for y in (c, d)]
                out.append((max(min(vs), NEG_INF), min(max(vs), POS_INF)))
        return IntSet(out)

    def add(self, o):
        return self._bin(o, lambda x, y: x + y)

    def sub(self, o):
        return self._bin(o, lambda x, y: x - y)

    def mul(self, o):
        return self._bin(o, lambda x, y: x * y)

    def neg(self):
        return IntSet([(-b, -a) for a, b in self.ivs])

    def __repr__(self):
        def f(x):
            if x <= NEG_INF:
                return "-inf"
            if x >= POS_INF:
                return "+inf"
            return str(x)
        return "{" + " u ".join("[%s,%s]" % (f(a), f(b)) for a, b in self.ivs) + "}"


# ------------------------------------------------------------------------ polynomials
# poly: dict monomial -> coeff ; monomial: tuple of atoms sorted by repr ; () is the constant
def p_const(c):
    return {(): c} if c else {}


def p_sym(a):
    return {(a,): 1}


def p_add(p, q, k=1):
    r = dict(p)
    for m, c in q.items():
        v = r.get(m, 0) + k * c
        if v:
            r[m] = v
        else:
            r.pop(m, None)
    return r


def p_mul(p, q):
    r = {}
    for m1, c1 in p.items():
        for m2, c2 in q.items():
            m = tuple(sorted(m1 + m2, key=repr))
            v = r.get(m, 0) + c1 * c2
            if v:
                r[m] = v
            else:
                r.pop(m, None)
    return r


def p_key(p):
    return tuple(sorted(p.items(), key=repr))


def p_syms(p):
    s = set()
    for m in p:
        for a in m:
            s.add(a)
            s |= _atom_syms(a)
    return s


def _atom_syms(a):
    s = set()
    if isinstance(a, tuple):
        for x in a:
            if isinstance(x, tuple):
                s.add(x)
                s |= _atom_syms(x)
    return s


def key_syms(k):
    s = set()
    for m, _c in k:
        for a in m:
            s.add(a)
            s |= _atom_syms(a)
    return s


def p_str(p):
    if not p:
        return "0"
    parts = []
    for m, c in sorted(p.items(), key=repr):
        t = "*".join(_atom_str(a) for a in m) or "1"
        if m == ():
            parts.append(str(c))
        elif c == 1:
            parts.append(t)
        elif c == -1:
            parts.append("-" + t)
        else:
            parts.append("%d*%s" % (c, t))
    return " + ".join(parts).replace("+ -", "- ")


def _atom_str(a):
    if isinstance(a, tuple):
        if not a:
            return "()"
        if a[0] == "arg":
            return "arg" + ".".join(str(x) for x in a[1:])
        if a[0] in ("div", "rem"):
            return "(%s %s %s)" % (p_str(dict(a[1])), a[0], p_str(dict(a[2])))
        if a[0] in ("param", "site", "fresh"):
            return "%s@%s" % (a[0], ":".join(str(x) for x in a[1:] if not isinstance(x, tuple)))
        return "%s(%s)" % (a[0], ",".join(_atom_str(x) if isinstance(x, tuple) else str(x)
                                          for x in a[1:]))
    return str(a)


# ------------------------------------------------------------------------ abstract values
class AInt:
    __slots__ = ("set", "lin", "ty")

    def __init__(self, s, lin=None, ty=None):
        self.set = s
        self.lin = lin
        self.ty = ty

    def __repr__(self):
        return "Int%r%s" % (self.set, (" = " + p_str(self.lin)) if self.lin is not None else "")


class ABool:
    """known: True/False/None; refinements if true / if false: list of (AInt, IntSet)"""
    __slots__ = ("known", "t", "f")

    def __init__(self, known=None, t=(), f=()):
        self.known = known
        self.t = tuple(t)
        self.f = tuple(f)

    def neg(self):
        return ABool(None if self.known is None else (not self.known), self.f, self.t)

    def __repr__(self):
        return "Bool(%s)" % self.known


class AStruct:
    __slots__ = ("ty", "fields")

    def __init__(self, ty, fields):
        self.ty = ty
        self.fields = dict(fields)

    def __repr__(self):
        return "%s{%s}" % (self.ty.split("::")[-1],
                           ", ".join("%s: %r" % kv for kv in self.fields.items()))


class AEnum:
    """variants: name -> (payload dict field->AbsVal, guards: tuple of fact dicts)"""
    __slots__ = ("ty", "variants")

    def __init__(self, ty, variants):
        self.ty = ty
        self.variants = dict(variants)

    def __repr__(self):
        return "%s<%s>" % (self.ty.split("<")[0].split("::")[-1],
                           " | ".join("%s%r" % (k, tuple(v[0].values()))
                                      for k, v in self.variants.items()))


class ADisc:
    """result of Discriminant(place)"""
    __slots__ = ("place", "enum")

    def __init__(self, place, enum):
        self.place = place
        self.enum = enum


class ARef:
    __slots__ = ("val", "place", "mut")

    def __init__(self, val, place=None, mut=False):
        self.val = val
        self.place = place
        self.mut = mut

    def __repr__(self):
        return "&%r" % (self.val,)


class AClosure:
    __slots__ = ("fid", "upvars")

    def __init__(self, fid, upvars):
        self.fid = fid
        self.upvars = list(upvars)


class AFn:
    __slots__ = ("fid", "p", "info")

    def __init__(self, fid, p, info):
        self.fid = fid
        self.p = p
        self.info = info


class ATop:
    __slots__ = ("ty",)

    def __init__(self, ty=None):
        self.ty = ty

    def __repr__(self):
        return "Top"


BOTTOM = object()   # uninhabited value (e.g. Infallible)


# ------------------------------------------------------------------------ type strings
def split_generics(t):
    """'a::B<X, Y<Z>>' -> ('a::B', ['X','Y<Z>'])"""
    i = t.find("<")
    if i < 0 or not t.endswith(">"):
        return t, []
    base = t[:i]
    inner = t[i + 1:-1]
    args = []
    depth = 0
    cur = ""
    for ch in inner:
        if ch in "<([":
            depth += 1
        elif ch in ">)]":
            depth -= 1
        if ch == "," and depth == 0:
            args.append(cur.strip())
            cur = ""
        else:
            cur += ch
    if cur.strip():
        args.append(cur.strip())
    return base, args


ENUM_SHAPES = {
    "core::option::Option": lambda a: {"None": [], "Some": [a[0]]},
    "core::result::Result": lambda a: {"Ok": [a[0]], "Err": [a[1]]},
    "core::ops::ControlFlow": lambda a: {"Continue": [a[1] if len(a) > 1 else "()"],
                                         "Break": [a[0]]},
}


class State:
    __slots__ = ("env", "facts")

    def __init__(self, env=None, facts=None):
        self.env = env if env is not None else {}
        self.facts = facts if facts is not None else {}

    def copy(self):
        return State(dict(self.env), dict(self.facts))


class Site:
    """a recorded event for the client (construction, panic, arithmetic, cast, unmodelled)"""

    def __init__(self, kind, fn, span, **kw):
        self.kind = kind
        self.fn = fn
        self.span = span
        self.__dict__.update(kw)


class Interp:
    def __init__(self, world, scope, invariants=None, max_depth=6):
        """scope: predicate fn -> bool (inline-analyse calls to these);
        invariants: ty -> {field: IntSet} type invariants yielded by Top(ty)"""
        self.world = world
        self.scope = scope
        self.inv = invariants or {}
        self.max_depth = max_depth
        self.sites = []
        self.undecided = []
        self.fresh_n = 0
        self.top_level = None
        self.visited = set()
        self.record_aggs = set()

    # ---------------------------------------------------------------- Top
    def top(self, ty, sym):
        """most general value of type `ty`; `sym` is the symbol naming it"""
        ty = ty.strip()
        if ty in INT_RANGE:
            return AInt(IntSet.ty(ty), p_sym(sym), ty)
        if ty == "bool":
            return ABool()
        if ty == "core::convert::Infallible" or ty == "!":
            return BOTTOM
        if ty.startswith("&"):
            inner = re.sub(r"^&('\w+ )?(mut )?", "", ty)
            return ARef(self.top(inner, sym + ("*",)), None, ty.startswith("&mut") or " mut " in ty[:12])
        base, args = split_generics(ty)
        if ty in self.inv:
            return AStruct(ty, {f: AInt(s, p_sym(sym + (f,)), None)
                                for f, s in self.inv[ty].items()})
        if base in ENUM_SHAPES and args:
            shape = ENUM_SHAPES[base](args)
            vs = {}
            for vn, ftys in shape.items():
                pl = {}
                bot = False
                for i, ft in enumerate(ftys):
                    v = self.top(ft, sym + (vn, str(i)))
                    if v is BOTTOM:
                        bot = True
                    pl[str(i)] = v
                if not bot:
                    vs[vn] = (pl, ({},))
            return AEnum(ty, vs)
        if ty.startswith("(") and ty.endswith(")"):
            _, parts = split_generics("T<" + ty[1:-1] + ">")
            return AStruct(ty, {str(i): self.top(p, sym + (str(i),)) for i, p in enumerate(parts)})
        adt = self.world.adts.get(base)
        if adt and adt["kind"] == "Struct" and not args:
            return AStruct(ty, {f["name"]: self.top(f["ty"], sym + (f["name"],))
                                for f in adt["variants"][0]["fields"]})
        if adt and adt["kind"] == "Enum" and not args:
            vs = {}
            for v in adt["variants"]:
                vs[v["name"]] = ({f["name"]: self.top(f["ty"], sym + (v["name"], f["name"]))
                                  for f in v["fields"]}, ({},))
            return AEnum(ty, vs)
        return ATop(ty)

    # ---------------------------------------------------------------- values & facts
    def cur(self, st, v):
        """current IntSet of an AInt under the fact store"""
        s = v.set
        if v.lin is not None:
            f = st.facts.get(p_key(v.lin))
            if f is not None:
                s = s.meet(f)
        return s

    def refine(self, st, v, s):
        """assume AInt v in s; returns False if infeasible"""
        if not isinstance(v, AInt):
            return True
        if v.lin is None:
            return not v.set.meet(s).empty()
        c = p_const_of(v.lin)
        if c is not None:
            return not IntSet.of(c, c).meet(s).empty()
        k = p_key(v.lin)
        new = st.facts.get(k, IntSet.all()).meet(s).meet(v.set)
        if new.empty():
            return False
        st.facts[k] = new
        return True

    def assume(self, st, b, truth):
        """assume ABool b == truth in state st (mutating); False if infeasible"""
        if not isinstance(b, ABool):
            return True
        if b.known is not None and b.known != truth:
            return False
        for v, s in (b.t if truth else b.f):
            if not self.refine(st, v, s):
                return False
        return True

    def kill_sym(self, st, sym):
        for k in [k for k in st.facts if sym in key_syms(k)]:
            del st.facts[k]
        for l in list(st.env):
            st.env[l] = self._strip(st, st.env[l], sym)

    def _strip(self, st, v, sym):
        if isinstance(v, AInt):
            if v.lin is not None and sym in p_syms(v.lin):
                return AInt(self.cur(st, v), None, v.ty)
            return v
        if isinstance(v, AStruct):
            return AStruct(v.ty, {k: self._strip(st, x, sym) for k, x in v.fields.items()})
        if isinstance(v, AEnum):
            return AEnum(v.ty, {n: ({k: self._strip(st, x, sym) for k, x in pl.items()},
                                    tuple({k: s for k, s in g.items() if sym not in key_syms(k)}
                                          for g in gs))
                                for n, (pl, gs) in v.variants.items()})
        if isinstance(v, ARef):
            return ARef(self._strip(st, v.val, sym), v.place, v.mut)
        if isinstance(v, AClosure):
            return AClosure(v.fid, [self._strip(st, x, sym) for x in v.upvars])
        return v

    # ---------------------------------------------------------------- join
    def join_val(self, a, b, sta=None, stb=None):
        if a is b:
            return a
        if a is BOTTOM:
            return b
        if b is BOTTOM:
            return a
        if isinstance(a, AInt) and isinstance(b, AInt):
            sa = self.cur(sta, a) if sta is not None else a.set
            sb = self.cur(stb, b) if stb is not None else b.set
            if a.lin is not None and b.lin is not None and p_key(a.lin) == p_key(b.lin):
                return AInt(a.set.join(b.set), a.lin, a.ty)
            return AInt(sa.join(sb), None, a.ty or b.ty)
        if isinstance(a, ABool) and isinstance(b, ABool):
            return ABool(a.known if a.known == b.known else None)
        if isinstance(a, AStruct) and isinstance(b, AStruct) and a.fields.keys() == b.fields.keys():
            return AStruct(a.ty, {k: self.join_val(a.fields[k], b.fields[k], sta, stb)
                                  for k in a.fields})
        if isinstance(a, AEnum) and isinstance(b, AEnum):
            vs = {}
            for n in list(a.variants) + [x for x in b.variants if x not in a.variants]:
                if n in a.variants and n in b.variants:
                    pa, ga = a.variants[n]
                    pb, gb = b.variants[n]
                    pl = {k: self.join_val(pa[k], pb[k], sta, stb) for k in pa} \
                        if pa.keys() == pb.keys() else pa
                    vs[n] = (pl, _guards_join(ga, gb))
                else:
                    vs[n] = a.variants[n] if n in a.variants else b.variants[n]
            return AEnum(a.ty, vs)
        if isinstance(a, ARef) and isinstance(b, ARef):
            return ARef(self.join_val(a.val, b.val, sta, stb),
                        a.place if a.place == b.place else None, a.mut or b.mut)
        if isinstance(a, AClosure) and isinstance(b, AClosure) and a.fid == b.fid:
            return AClosure(a.fid, [self.join_val(x, y, sta, stb)
                                    for x, y in zip(a.upvars, b.upvars)])
        if isinstance(a, AFn) and isinstance(b, AFn) and a.fid == b.fid:
            return a
        if isinstance(a, ADisc) and isinstance(b, ADisc) and a.place == b.place:
            return ADisc(a.place, self.join_val(a.enum, b.enum, sta, stb))
        return ATop(getattr(a, "ty", None))

    def join_state(self, a, b):
        if a is None:
            return b.copy()
        if b is None:
            return a
        env = {}
        for l in set(a.env) | set(b.env):
            if l in a.env and l in b.env:
                env[l] = self.join_val(a.env[l], b.env[l], a, b)
            # a local defined on one path only is not live at the merge
        facts = {}
        for k in a.facts:
            if k in b.facts:
                facts[k] = a.facts[k].join(b.facts[k])
        return State(env, facts)

    def state_eq(self, a, b):
        if a is None or b is None:
            return a is b
        if a.facts != b.facts or a.env.keys() != b.env.keys():
            return False
        return all(_val_eq(a.env[l], b.env[l]) for l in a.env)

    # ---------------------------------------------------------------- place access
    def read(self, st, body, place):
        v = st.env.get(place.local)
        if v is None:
            v = ATop(body.local_ty(place.local))
        for p in place.proj:
            v = self._project(v, p)
        return v

    def _project(self, v, p):
        if v is BOTTOM:
            return BOTTOM
        if p == "*":
            if isinstance(v, ARef):
                return v.val
            return ATop()
        if p.startswith("."):
            f = p[1:]
            if isinstance(v, AStruct):
                return v.fields.get(f, ATop())
            if isinstance(v, dict):
                return v.get(f, ATop())
            if isinstance(v, AClosure):
                try:
                    return v.upvars[int(f)]
                except (ValueError, IndexError):
                    return ATop()
            return ATop()
        if p.startswith("as "):
            vn = p[3:]
            if isinstance(v, AEnum):
                if vn in v.variants:
                    return v.variants[vn][0]
                return BOTTOM
            return ATop()
        return ATop()

    def write(self, st, body, place, val):
        if not place.proj:
            st.env[place.local] = val
            return
        root = st.env.get(place.local)
        if root is None:
            root = self.top(body.local_ty(place.local), self.fresh("uninit"))
        st.env[place.local] = self._write_in(root, place.proj, val)

    def _write_in(self, v, proj, val):
        if not proj:
            return val
        p = proj[0]
        if p.startswith(".") and isinstance(v, AStruct):
            f = p[1:]
            nf = dict(v.fields)
            nf[f] = self._write_in(v.fields.get(f, ATop()), proj[1:], val)
            return AStruct(v.ty, nf)
        if p == "*" and isinstance(v, ARef):
            return ARef(self._write_in(v.val, proj[1:], val), None, v.mut)
        return ATop(getattr(v, "ty", None))

    def fresh(self, tag="v"):
        self.fresh_n += 1
        return ("fresh", tag, self.fresh_n)

    # ---------------------------------------------------------------- operands / rvalues
    def op(self, st, body, o, frame):
        if o.kind in ("copy", "move"):
            return self.close_val(self.read(st, body, o.place), st)
        if o.kind == "const":
            i = o.info
            if "fn" in i:
                return AFn(i["fn"], i.get("p"), i)
            if "promoted" in i:
                pb = frame["fn"].promoted[i["promoted"]]
                r = self.run_body(pb, [], frame["chain"] + (("promoted", i["promoted"]),),
                                  frame["depth"] + 1, frame["fn"], st.facts)
                return r if r is not None else ATop(o.ty)
            if "v" in i:
                if o.ty == "bool":
                    return ABool(bool(i["v"]))
                return AInt(IntSet.of(i["v"], i["v"]), p_const(i["v"]), o.ty)
            if "def" in i and i["def"] in self.world.consts:
                pass
            if "zst" in i:
                return AStruct(o.ty, {})
            return self.top(o.ty, ("const", i.get("def", i.get("txt", "?"))))
        return ATop()

    def rvalue(self, st, body, s, frame):
        rv = s.rv
        k = rv.kind
        if k == "use":
            return self.op(st, body, rv.ops[0], frame)
        if k == "ref":
            return ARef(self.read(st, body, rv.place), (frame["chain"], rv.place.key()),
                        rv.bk == "mut")
        if k == "raw":
            return ATop()
        if k == "disc":
            v = self.read(st, body, rv.place)
            return ADisc(rv.place, v)
        if k == "agg":
            ops = [self.op(st, body, o, frame) for o in rv.ops]
            a = rv.agg
            if a[0] == "adt":
                _, adt, variant, fnames = a
                info = self.world.adts.get(adt)
                is_enum = (info and info["kind"] == "Enum") or adt in ENUM_SHAPES
                if any(o is BOTTOM for o in ops):
                    return BOTTOM
                if is_enum:
                    pl = {fn: o for fn, o in zip(fnames, ops)}
                    if adt in self.record_aggs:
                        self.sites.append(Site("enum-agg", frame["fn"], s.span, adt=adt, variant=variant,
                                               payload=pl, state=st.copy(), chain=frame["chain"],
                                               top=self.top_level))
                    return AEnum(s.ty, {variant: (pl, (dict(st.facts),))})
                val = AStruct(s.ty, {fn: o for fn, o in zip(fnames, ops)})
                if adt in self.inv or s.ty in self.inv:
                    self.sites.append(Site("construct", frame["fn"], s.span, adt=adt, val=val,
                                           state=st.copy(), chain=frame["chain"],
                                           top=self.top_level))
                return val
            if a[0] in ("tuple", "array"):
                return AStruct(s.ty, {str(i): o for i, o in enumerate(ops)})
            if a[0] == "closure":
                return AClosure(a[1], ops)
            return ATop(s.ty)
        if k == "bin":
            return self.binop(st, body, s, rv.op, self.op(st, body, rv.ops[0], frame),
                              self.op(st, body, rv.ops[1], frame), frame)
        if k == "un":
            a = self.op(st, body, rv.ops[0], frame)
            if rv.op == "Not" and isinstance(a, ABool):
                return a.neg()
            if rv.op == "Neg" and isinstance(a, AInt):
                ca = self.cur(st, a)
                res = ca.neg()
                lin = p_add({}, a.lin, -1) if a.lin is not None else None
                return self.fit(st, s, frame, res, lin, s.ty, "Neg")
            return self.top(s.ty, self.site_sym(frame, s)) if s.ty in INT_RANGE else ATop(s.ty)
        if k == "cast":
            a = self.op(st, body, rv.ops[0], frame)
            if rv.op.startswith("IntToInt") and isinstance(a, AInt) and rv.ty in INT_RANGE:
                ca = self.cur(st, a)
                return self.fit(st, s, frame, ca, a.lin, rv.ty, "cast")
            if isinstance(a, (ARef, AClosure, AFn)):
                return a
            return self.top(rv.ty, self.site_sym(frame, s)) if rv.ty in INT_RANGE else ATop(rv.ty)
        if k == "repeat":
            return ATop(s.ty)
        return ATop(s.ty)

    def site_sym(self, frame, s):
        return ("site", frame["chain"], frame["fn"].id, s.span.line, s.span.col)

    def fit(self, st, s, frame, exact, lin, ty, what):
        """an integer result whose mathematically exact value set is `exact`, stored in `ty`.
        If it does not fit, the machine value differs from the exact one (wrap/truncate):
        record it; the result is then only known to be in the type's range."""
        rng = IntSet.ty(ty)
        if exact.subset(rng):
            if lin is None:
                sym = self.site_sym(frame, s)
                self.kill_sym(st, sym)
                lin = p_sym(sym)
            return AInt(exact, lin, ty)
        self.sites.append(Site("maywrap", frame["fn"], s.span, what=what, exact=exact, ty=ty,
                               chain=frame["chain"], top=self.top_level))
        sym = self.site_sym(frame, s)
        self.kill_sym(st, sym)
        return AInt(rng, p_sym(sym), ty)

    def binop(self, st, body, s, op, a, b, frame):
        if isinstance(a, AInt) and isinstance(b, AInt):
            ca, cb = self.cur(st, a), self.cur(st, b)
            sym = a.lin is not None and b.lin is not None
            base = op.replace("WithOverflow", "").replace("Unchecked", "")
            if base in ("Add", "Sub", "Mul"):
                if base == "Add":
                    ex, lin = ca.add(cb), (p_add(a.lin, b.lin) if sym else None)
                elif base == "Sub":
                    ex, lin = ca.sub(cb), (p_add(a.lin, b.lin, -1) if sym else None)
                else:
                    ex, lin = ca.mul(cb), (p_mul(a.lin, b.lin) if sym else None)
                ty = a.ty or b.ty
                rng = IntSet.ty(ty) if ty in INT_RANGE else IntSet.all()
                if op.endswith("WithOverflow"):
                    fits = ex.subset(rng)
                    if lin is None or not fits:
                        sym_ = self.site_sym(frame, s)
                        self.kill_sym(st, sym_)
                        lin = p_sym(sym_)
                    val = AInt(ex if fits else rng, lin, ty)
                    tup_ty = s.ty
                    return AStruct(tup_ty, {"0": val, "1": ABool(False if fits else None)})
                return self.fit(st, s, frame, ex, lin, ty, base)
            if base in ("Div", "Rem"):
                ty = a.ty or b.ty
                if cb.meet(IntSet.of(0, 0)).empty() and ca.lo() >= 0 and cb.lo() > 0:
                    if base == "Div":
                        res = IntSet.of(ca.lo() // cb.hi(), ca.hi() // cb.lo())
                    else:
                        res = IntSet.of(0, min(ca.hi(), cb.hi() - 1))
                    lin = None
                    if sym:
                        lin = p_sym((base.lower(), p_key(a.lin), p_key(b.lin)))
                    return AInt(res, lin, ty)
                return AInt(IntSet.ty(ty), None, ty)
            if base in ("Eq", "Ne", "Lt", "Le", "Gt", "Ge"):
                return self.compare(base, a, ca, b, cb)
            return self.top(s.ty, self.site_sym(frame, s)) if s.ty in INT_RANGE else ATop(s.ty)
        if isinstance(a, ABool) and isinstance(b, ABool):
            if op == "BitAnd":
                kn = (False if (a.known is False or b.known is False)
                      else (True if a.known and b.known else None))
                return ABool(kn, a.t + b.t, ())
            if op == "BitOr":
                kn = (True if (a.known or b.known)
                      else (False if a.known is False and b.known is False else None))
                return ABool(kn, (), a.f + b.f)
            if op in ("Eq", "Ne") and b.known is not None:
                r = a if b.known else a.neg()
                return r if op == "Eq" else r.neg()
        if s.ty == "bool":
            return ABool()
        return ATop(s.ty)

    def compare(self, op, a, ca, b, cb):
        """ABool for a `op` b with refinements on whichever side is symbolic"""
        def known():
            if op == "Lt":
                return True if ca.hi() < cb.lo() else (False if ca.lo() >= cb.hi() else None)
            if op == "Le":
                return True if ca.hi() <= cb.lo() else (False if ca.lo() > cb.hi() else None)
            if op == "Gt":
                return True if ca.lo() > cb.hi() else (False if ca.hi() <= cb.lo() else None)
            if op == "Ge":
                return True if ca.lo() >= cb.hi() else (False if ca.hi() < cb.lo() else None)
            if op == "Eq":
                if ca.single() is not None and ca.single() == cb.single():
                    return True
                return False if ca.meet(cb).empty() else None
            if op == "Ne":
                if ca.single() is not None and ca.single() == cb.single():
                    return False
                return True if ca.meet(cb).empty() else None
        t, f = [], []
        # relational fact on the difference a - b (kept in the fact store like any polynomial)
        if a.lin is not None and b.lin is not None and p_const_of(a.lin) is None \
                and p_const_of(b.lin) is None:
            d = AInt(IntSet.all(), p_add(a.lin, b.lin, -1), None)
            neg, nonneg = IntSet.of(NEG_INF, -1), IntSet.of(0, POS_INF)
            pos, nonpos = IntSet.of(1, POS_INF), IntSet.of(NEG_INF, 0)
            zero = IntSet.of(0, 0)
            rel = {"Lt": (neg, nonneg), "Le": (nonpos, pos), "Gt": (pos, nonpos),
                   "Ge": (nonneg, neg), "Eq": (zero, zero.complement()),
                   "Ne": (zero.complement(), zero)}[op]
            t.append((d, rel[0]))
            f.append((d, rel[1]))
        # refine a against the hull of b, and b against the hull of a
        lo_b, hi_b, lo_a, hi_a = cb.lo(), cb.hi(), ca.lo(), ca.hi()
        if op == "Lt":
            t += [(a, IntSet.of(NEG_INF, hi_b - 1)), (b, IntSet.of(lo_a + 1, POS_INF))]
            f += [(a, IntSet.of(lo_b, POS_INF)), (b, IntSet.of(NEG_INF, hi_a))]
        elif op == "Le":
            t += [(a, IntSet.of(NEG_INF, hi_b)), (b, IntSet.of(lo_a, POS_INF))]
            f += [(a, IntSet.of(lo_b + 1, POS_INF)), (b, IntSet.of(NEG_INF, hi_a - 1))]
        elif op == "Gt":
            t += [(a, IntSet.of(lo_b + 1, POS_INF)), (b, IntSet.of(NEG_INF, hi_a - 1))]
            f += [(a, IntSet.of(NEG_INF, hi_b)), (b, IntSet.of(lo_a, POS_INF))]
        elif op == "Ge":
            t += [(a, IntSet.of(lo_b, POS_INF)), (b, IntSet.of(NEG_INF, hi_a))]
            f += [(a, IntSet.of(NEG_INF, hi_b - 1)), (b, IntSet.of(lo_a + 1, POS_INF))]
        elif op == "Eq":
            t += [(a, cb), (b, ca)]
            if cb.single() is not None:
                f += [(a, cb.complement())]
            if ca.single() is not None:
                f += [(b, ca.complement())]
        elif op == "Ne":
            f += [(a, cb), (b, ca)]
            if cb.single() is not None:
                t += [(a, cb.complement())]
            if ca.single() is not None:
                t += [(b, ca.complement())]
        return ABool(known(), t, f)

    # ---------------------------------------------------------------- running a body
    def analyse(self, fn, args=None):
        """analyse `fn` as a top-level entry with symbolic arguments; returns result value"""
        self.top_level = fn
        body = fn.body
        if args is None:
            args = []
            for i in range(1, body.argc + 1):
                args.append(self.top(body.local_ty(i), ("arg", i - 1)))
        return self.run_body(body, args, (), 0, fn)

    def run_body(self, body, args, chain, depth, fn, facts=None):
        """returns the joined abstract return value, or None if no normal return is reachable"""
        if any(a is BOTTOM for a in args):
            return None
        self.visited.add(fn.id)
        st0 = State(None, dict(facts) if facts else None)
        for i, a in enumerate(args):
            st0.env[i + 1] = self.name_ints(st0, a, ("param", chain, fn.id, i))
        frame = {"fn": fn, "chain": chain, "depth": depth, "body": body}
        n = len(body.blocks)
        instate = [None] * n
        instate[0] = st0
        visits = [0] * n
        work = [0]
        ret = None
        ret_state = None
        while work:
            bb = work.pop(0)
            st = instate[bb]
            if st is None:
                continue
            visits[bb] += 1
            if visits[bb] > 40:
                self.undecided.append("fixpoint not reached in %s bb%d" % (fn.p, bb))
                break
            st = st.copy()
            blk = body.blocks[bb]
            dead = False
            for s in blk.stmts:
                if s.kind == "=":
                    v = self.rvalue(st, body, s, frame)
                    if v is BOTTOM:
                        dead = True
                        break
                    if isinstance(v, ATop) and s.ty in INT_RANGE:
                        sym_ = self.site_sym(frame, s)
                        self.kill_sym(st, sym_)
                        v = self.top(s.ty, sym_)
                    self.write(st, body, s.place, v)
                elif s.kind == "setdisc":
                    self.write(st, body, s.place, ATop(s.ty))
            if dead:
                continue
            outs = self.terminator(st, body, bb, blk.term, frame)
            for tgt, ost in outs:
                if tgt == "return":
                    v = ost.env.get(0, AStruct("()", {}))
                    if ret is None:
                        ret, ret_state = v, ost
                    else:
                        ret = self.join_val(ret, v, ret_state, ost)
                    continue
                old = instate[tgt]
                if visits[tgt] >= 6 and old is not None:
                    ost = self.widen(old, ost)
                new = self.join_state(old, ost)
                if old is None or not self.state_eq(old, new):
                    instate[tgt] = new
                    if tgt not in work:
                        work.append(tgt)
        if ret is not None and ret_state is not None:
            ret = self.close_val(ret, ret_state)
        return ret

    def name_ints(self, st, v, sym):
        """give integers that lost their symbolic form a fresh symbol so that branch
        refinement still applies to them (the symbol is re-bound: stale facts are killed)"""
        if isinstance(v, AInt):
            if v.lin is None:
                self.kill_sym(st, sym)
                return AInt(v.set, p_sym(sym), v.ty)
            return v
        if isinstance(v, AStruct):
            return AStruct(v.ty, {k: self.name_ints(st, x, sym + (k,)) for k, x in v.fields.items()})
        if isinstance(v, ARef):
            return ARef(self.name_ints(st, v.val, sym + ("*",)), v.place, v.mut)
        if isinstance(v, AEnum):
            return AEnum(v.ty, {n: ({k: self.name_ints(st, x, sym + (n, k)) for k, x in pl.items()}, gs)
                                for n, (pl, gs) in v.variants.items()})
        return v

    def close_val(self, v, st):
        """bake the fact store into interval sets before a value leaves its frame state"""
        if isinstance(v, AInt):
            return AInt(self.cur(st, v), v.lin, v.ty)
        if isinstance(v, AStruct):
            return AStruct(v.ty, {k: self.close_val(x, st) for k, x in v.fields.items()})
        if isinstance(v, AEnum):
            return AEnum(v.ty, {n: ({k: self.close_val(x, st) for k, x in pl.items()}, gs)
                                for n, (pl, gs) in v.variants.items()})
        if isinstance(v, ARef):
            return ARef(self.close_val(v.val, st), v.place, v.mut)
        return v

    def widen(self, old, new):
        """after repeated visits: forget symbolic forms/facts that keep changing"""
        st = new.copy()
        for l, v in list(st.env.items()):
            ov = old.env.get(l)
            if ov is not None and not _val_eq(ov, v):
                st.env[l] = self._widen_val(ov, v, st)
        st.facts = {k: s for k, s in st.facts.items() if old.facts.get(k) == s}
        return st

    def _widen_val(self, a, b, st):
        if isinstance(a, AInt) and isinstance(b, AInt):
            ty = a.ty or b.ty
            return AInt(IntSet.ty(ty) if ty in INT_RANGE else IntSet.all(), None, ty)
        if isinstance(a, AStruct) and isinstance(b, AStruct) and a.fields.keys() == b.fields.keys():
            if a.ty in self.inv:
                return AStruct(a.ty, {f: AInt(s, None, None) for f, s in self.inv[a.ty].items()})
            return AStruct(a.ty, {k: self._widen_val(a.fields[k], b.fields[k], st)
                                  for k in a.fields})
        if isinstance(a, AEnum) and isinstance(b, AEnum):
            vs = {}
            for n in set(a.variants) | set(b.variants):
                if n in a.variants and n in b.variants:
                    pa, pb = a.variants[n][0], b.variants[n][0]
                    vs[n] = ({k: self._widen_val(pa[k], pb[k], st) for k in pa}
                             if pa.keys() == pb.keys() else pb, ({},))
                else:
                    src = a.variants.get(n) or b.variants.get(n)
                    vs[n] = (src[0], ({},))
            return AEnum(a.ty, vs)
        return self.join_val(a, b)

    # ---------------------------------------------------------------- terminators
    def terminator(self, st, body, bb, t, frame):
        k = t.kind
        if k == "goto":
            return [(t.target, st)]
        if k == "return":
            return [("return", st)]
        if k in ("unreachable", "resume", "terminate"):
            return []
        if k == "drop":
            return [(t.target, st)]
        if k == "assert":
            c = self.op(st, body, t.cond, frame)
            ok = st.copy()
            feasible_ok = self.assume(ok, c, t.expected)
            bad = st.copy()
            feasible_bad = self.assume(bad, c, not t.expected)
            if feasible_bad:
                self.sites.append(Site("panic", frame["fn"], t.span, what="assert:" + t.msg[0],
                                       state=bad, chain=frame["chain"], top=self.top_level))
            return [(t.target, ok)] if feasible_ok else []
        if k == "switch":
            d = self.op(st, body, t.discr, frame)
            outs = []
            if isinstance(d, ABool):
                for val, tgt in t.arms:
                    s2 = st.copy()
                    if self.assume(s2, d, bool(val)):
                        outs.append((tgt, s2))
                taken = {bool(v) for v, _ in t.arms}
                for other in (True, False):
                    if other not in taken:
                        s2 = st.copy()
                        if self.assume(s2, d, other):
                            outs.append((t.otherwise, s2))
                return outs
            if isinstance(d, ADisc) and isinstance(d.enum, AEnum):
                names = self.variant_order(d.enum)
                seen = set()
                for val, tgt in t.arms:
                    vn = names.get(val)
                    seen.add(vn)
                    if vn in d.enum.variants:
                        s2 = self.enter_variant(st, body, d, vn)
                        if s2 is not None:
                            outs.append((tgt, s2))
                rest = [vn for vn in d.enum.variants if vn not in seen]
                if rest:
                    if names:
                        s2 = st.copy()
                        outs.append((t.otherwise, s2))
                    else:
                        outs.append((t.otherwise, st.copy()))
                if not names:   # unknown variant numbering: all arms possible
                    outs = [(tgt, st.copy()) for _, tgt in t.arms] + [(t.otherwise, st.copy())]
                return outs
            if isinstance(d, AInt):
                cd = self.cur(st, d)
                for val, tgt in t.arms:
                    s2 = st.copy()
                    if self.refine(s2, d, IntSet.of(val, val)) and \
                            not cd.meet(IntSet.of(val, val)).empty():
                        outs.append((tgt, s2))
                s2 = st.copy()
                rest = cd
                for val, _ in t.arms:
                    rest = rest.meet(IntSet.of(val, val).complement())
                if not rest.empty():
                    self.refine(s2, d, rest)
                    outs.append((t.otherwise, s2))
                return outs
            return [(tgt, st.copy()) for _, tgt in t.arms] + [(t.otherwise, st.copy())]
        if k in ("call", "tailcall"):
            return self.call(st, body, bb, t, frame)
        return [(x, st.copy()) for x in t.succs()]

    def variant_order(self, e):
        base, _ = split_generics(e.ty)
        if base == "core::option::Option":
            return {0: "None", 1: "Some"}
        if base == "core::result::Result":
            return {0: "Ok", 1: "Err"}
        if base == "core::ops::ControlFlow":
            return {0: "Continue", 1: "Break"}
        adt = self.world.adts.get(base)
        if adt and adt["kind"] == "Enum":
            return {i: v["name"] for i, v in enumerate(adt["variants"])}
        return {}

    def enter_variant(self, st, body, d, vn):
        """state for the branch where enum at d.place has variant vn (guards applied)"""
        pl, guards = d.enum.variants[vn]
        # meet the facts with the variant's guard disjunction (join of the disjuncts)
        s2 = st.copy()
        feas = []
        for g in guards:
            s3 = s2.copy()
            okk = True
            for key, iset in g.items():
                new = s3.facts.get(key, IntSet.all()).meet(iset)
                if new.empty():
                    okk = False
                    break
                s3.facts[key] = new
            if okk:
                feas.append((g, s3))
        if not feas:
            return None
        joined = None
        for _g, s3 in feas:
            joined = self.join_state(joined, s3)
        only = AEnum(d.enum.ty, {vn: (pl, tuple(g for g, _ in feas))})
        self.write(joined, body, d.place, only)
        return joined

    # ---------------------------------------------------------------- calls
    def call(self, st, body, bb, t, frame):
        ce = t.callee
        args = [self.op(st, body, a, frame) for a in t.args]
        if any(a is BOTTOM for a in args):
            return []
        # &mut arguments escape: havoc pointee afterwards
        res = self.call_value(st, body, t, ce, args, frame)
        for a in args:
            if isinstance(a, ARef) and a.mut and a.place is not None:
                chain, pk = a.place
                if chain == frame["chain"]:
                    import zf
                    pl = zf.Place(list(pk))
                    self.write(st, body, pl, self.top_of_place(body, pl, frame, t))
        if res is None or res is BOTTOM:   # diverges
            return []
        if t.kind == "tailcall":
            st.env[0] = res
            return [("return", st)]
        # re-binding a site symbol: kill stale facts (loops)
        self.write(st, body, t.dest, res)
        if t.target is None:
            return []
        return [(t.target, st)]

    def top_of_place(self, body, pl, frame, t):
        ty = body.local_ty(pl.local) if not pl.proj else None
        sym = ("site", frame["chain"], frame["fn"].id, t.span.line, t.span.col, "havoc",
               pl.local)
        return self.top(ty, sym) if ty else ATop()

    def call_value(self, st, body, t, ce, args, frame):
        dest_ty = self.place_ty(body, t.dest) if t.dest is not None else None
        sym = ("site", frame["chain"], frame["fn"].id, t.span.line, t.span.col)
        if ce.indirect is not None:
            self.sites.append(Site("unmodelled", frame["fn"], t.span, callee="<indirect>",
                                   chain=frame["chain"], top=self.top_level))
            return self.fresh_top(st, dest_ty, sym)
        name = ce.target_p()
        # panics
        if name.startswith("core::panicking::") or name.startswith("std::rt::begin_panic") \
                or name in ("core::option::unwrap_failed", "core::result::unwrap_failed",
                            "core::option::expect_failed"):
            self.sites.append(Site("panic", frame["fn"], t.span, what="call:" + name,
                                   state=st.copy(), chain=frame["chain"], top=self.top_level))
            return None
        m = self.model(st, body, t, ce, name, args, frame, dest_ty, sym)
        if m is not NotImplemented:
            return m
        # in-scope callee: inline
        tid = ce.target_id()
        f = self.world.fns.get(tid)
        if f is not None and self.scope(f) and not ce.unres:
            if frame["depth"] >= self.max_depth:
                self.undecided.append("inlining depth exceeded at %s" % f.p)
                return self.fresh_top(st, dest_ty, sym)
            r = self.run_body(f.body, args, frame["chain"] + ((f.id, t.span.line, t.span.col),),
                              frame["depth"] + 1, f, st.facts)
            if r is not None and sym is not None:
                r = self.name_ints(st, r, sym)
            return r
        self.sites.append(Site("unmodelled", frame["fn"], t.span, callee=name,
                               chain=frame["chain"], top=self.top_level, dest_ty=dest_ty,
                               args=args, state=st.copy()))
        return self.fresh_top(st, dest_ty, sym)

    def fresh_top(self, st, ty, sym):
        self.kill_sym(st, sym)
        if ty is None:
            return ATop()
        return self.top(ty, sym)

    def place_ty(self, body, place):
        if not place.proj:
            return body.local_ty(place.local)
        return None

    def call_closure(self, st, f, cargs, frame, t):
        """invoke closure/fn value f with argument values (already a list)"""
        if isinstance(f, AClosure):
            fn = self.world.fns.get(f.fid)
            if fn is None:
                return ATop()
            # closure body: _1 = closure env (struct of upvars), _2.. = args
            envv = f
            return self.run_body(fn.body, [envv] + list(cargs),
                                 frame["chain"] + ((fn.id, t.span.line, t.span.col),),
                                 frame["depth"] + 1, fn, st.facts)
        if isinstance(f, AFn):
            fn = self.world.fns.get(f.fid)
            if fn is not None and self.scope(fn):
                return self.run_body(fn.body, list(cargs),
                                     frame["chain"] + ((fn.id, t.span.line, t.span.col),),
                                     frame["depth"] + 1, fn, st.facts)
            if f.info.get("ctor"):
                adt = f.info.get("adt")
                # constructor used as a function value: a construction site
                info = self.world.adts.get(adt)
                if info and info["kind"] == "Struct":
                    fn_ = [x["name"] for x in info["variants"][0]["fields"]]
                    val = AStruct(adt, dict(zip(fn_, cargs)))
                    if adt in self.inv:
                        self.sites.append(Site("construct", frame["fn"], t.span, adt=adt, val=val,
                                               state=st.copy(), chain=frame["chain"],
                                               top=self.top_level))
                    return val
        self.sites.append(Site("unmodelled", frame["fn"], t.span, callee="<fn value>",
                               chain=frame["chain"], top=self.top_level))
        return ATop()

    # ---------------------------------------------------------------- models of std functions
    def model(self, st, body, t, ce, name, args, frame, dest_ty, sym):
        full = ce.full or ""
        deref = lambda v: v.val if isinstance(v, ARef) else v

        def enum_map(e, fmap, ty):
            """build a new enum from e: fmap(variant, payload, guards) -> list of
            (newvariant, payload, guards) or a full AEnum"""
            if not isinstance(e, AEnum):
                return self.fresh_top(st, ty, sym)
            out = None
            for vn, (pl, gs) in e.variants.items():
                r = fmap(vn, pl, gs)
                if r is None:
                    continue
                if isinstance(r, tuple):
                    r = AEnum(ty, {r[0]: (r[1], r[2])})
                if r is BOTTOM:
                    continue
                out = r if out is None else self.join_val(out, r)
            return out if out is not None else None

        def with_guards(v, gs):
            """attach the guards of the scrutinee variant to every variant of result v"""
            if isinstance(v, AEnum):
                return AEnum(v.ty, {n: (pl, _guards_meet(g2, gs)) for n, (pl, g2) in v.variants.items()})
            return v

        def variant_state(gs):
            """state in which one of the guard disjuncts holds"""
            s2 = None
            for g in gs:
                s3 = st.copy()
                okk = True
                for key, iset in g.items():
                    new = s3.facts.get(key, IntSet.all()).meet(iset)
                    if new.empty():
                        okk = False
                        break
                    s3.facts[key] = new
                if okk:
                    s2 = self.join_state(s2, s3)
            return s2

        if name == "core::ops::RangeInclusive::<Idx>::new":
            return AStruct(dest_ty or "RangeInclusive", {"start": args[0], "end": args[1]})
        if name == "core::ops::RangeInclusive::<Idx>::contains":
            r, x = deref(args[0]), deref(args[1])
            if isinstance(r, AStruct) and isinstance(x, AInt):
                lo, hi = r.fields.get("start"), r.fields.get("end")
                if isinstance(lo, AInt) and isinstance(hi, AInt):
                    l, h = self.cur(st, lo).single(), self.cur(st, hi).single()
                    if l is not None and h is not None:
                        rs = IntSet.of(l, h)
                        cx = self.cur(st, x)
                        kn = True if cx.subset(rs) else (False if cx.meet(rs).empty() else None)
                        return ABool(kn, [(x, rs)], [(x, rs.complement())])
            return ABool()
        m = re.match(r"core::num::<impl (\w+)>::(\w+)$", name)
        if m:
            ty, meth = m.group(1), m.group(2)
            rng = IntSet.ty(ty)
            a = args[0] if args else None
            b = args[1] if len(args) > 1 else None
            if meth in ("checked_add", "checked_sub", "checked_mul") and \
                    isinstance(a, AInt) and isinstance(b, AInt):
                ca, cb = self.cur(st, a), self.cur(st, b)
                sm = a.lin is not None and b.lin is not None
                if meth == "checked_add":
                    ex, lin = ca.add(cb), p_add(a.lin, b.lin) if sm else None
                elif meth == "checked_sub":
                    ex, lin = ca.sub(cb), p_add(a.lin, b.lin, -1) if sm else None
                else:
                    ex, lin = ca.mul(cb), p_mul(a.lin, b.lin) if sm else None
                vs = {}
                inr, outr = ex.meet(rng), ex.meet(rng.complement())
                if not inr.empty():
                    g = dict(st.facts)
                    if lin is not None and p_const_of(lin) is None:
                        g[p_key(lin)] = g.get(p_key(lin), IntSet.all()).meet(inr)
                    vs["Some"] = ({"0": AInt(inr, lin, ty)}, (g,))
                if not outr.empty():
                    g = dict(st.facts)
                    if lin is not None and p_const_of(lin) is None:
                        g[p_key(lin)] = g.get(p_key(lin), IntSet.all()).meet(outr)
                    vs["None"] = ({}, (g,))
                return AEnum(dest_ty or "core::option::Option<%s>" % ty, vs)
            if meth in ("wrapping_add", "wrapping_sub", "wrapping_mul", "saturating_add",
                        "saturating_sub", "saturating_mul") and \
                    isinstance(a, AInt) and isinstance(b, AInt):
                ca, cb = self.cur(st, a), self.cur(st, b)
                sm = a.lin is not None and b.lin is not None
                o = meth.split("_")[1]
                if o == "add":
                    ex, lin = ca.add(cb), p_add(a.lin, b.lin) if sm else None
                elif o == "sub":
                    ex, lin = ca.sub(cb), p_add(a.lin, b.lin, -1) if sm else None
                else:
                    ex, lin = ca.mul(cb), p_mul(a.lin, b.lin) if sm else None
                if ex.subset(rng):
                    return AInt(ex, lin, ty)     # cannot wrap/saturate here: exact
                self.sites.append(Site("maywrap", frame["fn"], t.span, what=meth, exact=ex, ty=ty,
                                       chain=frame["chain"], top=self.top_level))
                return AInt(rng, None, ty)
            if meth in ("from_le_bytes", "from_be_bytes", "from_ne_bytes"):
                src = args[0]
                key = ("bytes", frame["chain"], id(src)) if not isinstance(src, ATop) else None
                bsym = getattr(src, "_sym", None)
                return AInt(rng, p_sym((meth, ty, self.val_sym(src))), ty)
            if meth in ("to_le_bytes", "to_be_bytes", "to_ne_bytes"):
                v = ATop(dest_ty)
                return _Bytes(dest_ty, meth, ty, a)
            if meth in ("is_positive", "is_negative") and isinstance(a, AInt):
                if meth == "is_positive":
                    return ABool(None, [(a, IntSet.of(1, POS_INF))], [(a, IntSet.of(NEG_INF, 0))])
                return ABool(None, [(a, IntSet.of(NEG_INF, -1))], [(a, IntSet.of(0, POS_INF))])
            if meth in ("abs", "unsigned_abs", "pow", "checked_div", "checked_rem",
                        "overflowing_add", "overflowing_sub", "overflowing_mul",
                        "unchecked_add", "unchecked_sub", "unchecked_mul", "checked_neg",
                        "wrapping_neg", "min", "max", "abs_diff", "div_ceil", "rem_euclid",
                        "div_euclid", "leading_zeros", "trailing_zeros", "count_ones"):
                return NotImplemented
        # integer conversions
        m = re.search(r"impl core::convert::TryFrom<(\w+)> for (\w+)>::try_from$", name)
        if not m and name.endswith("::try_into"):
            m2 = re.match(r"<(\w+) as core::convert::TryInto<(\w+)>>::try_into", full)
            if m2 and m2.group(1) in INT_RANGE and m2.group(2) in INT_RANGE:
                m = m2
        if m and m.group(1) in INT_RANGE and m.group(2) in INT_RANGE and isinstance(args[0], AInt):
            a = args[0]
            tgt = m.group(2)
            rng = IntSet.ty(tgt)
            ca = self.cur(st, a)
            vs = {}
            inr, outr = ca.meet(rng), ca.meet(rng.complement())
            if not inr.empty():
                g = dict(st.facts)
                if a.lin is not None and p_const_of(a.lin) is None:
                    g[p_key(a.lin)] = g.get(p_key(a.lin), IntSet.all()).meet(inr)
                vs["Ok"] = ({"0": AInt(inr, a.lin, tgt)}, (g,))
            if not outr.empty():
                g = dict(st.facts)
                if a.lin is not None and p_const_of(a.lin) is None:
                    g[p_key(a.lin)] = g.get(p_key(a.lin), IntSet.all()).meet(outr)
                vs["Err"] = ({"0": ATop("core::num::TryFromIntError")}, (g,))
            return AEnum(dest_ty or "core::result::Result<%s, core::num::TryFromIntError>" % tgt, vs)
        m = re.search(r"impl core::convert::From<(\w+)> for (\w+)>::from$", name)
        if m and m.group(1) in INT_RANGE and m.group(2) in INT_RANGE and isinstance(args[0], AInt):
            # lossless integer widening
            a = args[0]
            return AInt(self.cur(st, a), a.lin, m.group(2))
        if name == "core::num::nonzero::<impl core::convert::From<core::num::NonZero<T>> for T>::from":
            ty = dest_ty if dest_ty in INT_RANGE else "u64"
            lo, hi = INT_RANGE[ty]
            return AInt(IntSet.of(max(lo, 1), hi), p_sym(("nonzero", self.val_sym(args[0]))), ty)
        # Try / FromResidual
        if name.endswith("as core::ops::Try>::branch"):
            e = args[0]
            if isinstance(e, AEnum):
                vs = {}
                for vn, (pl, gs) in e.variants.items():
                    if vn in ("Some", "Ok"):
                        vs["Continue"] = ({"0": pl["0"]}, gs)
                    else:
                        vs["Break"] = ({"0": AEnum(e.ty, {vn: (pl, gs)})}, gs)
                return AEnum(dest_ty or "core::ops::ControlFlow<?, ?>", vs)
            return self.fresh_top(st, dest_ty, sym)
        if "core::ops::FromResidual" in name and name.endswith("::from_residual"):
            r = args[0]
            if isinstance(r, AEnum) and dest_ty:
                base, targs = split_generics(dest_ty)
                vs = {}
                for vn, (pl, gs) in r.variants.items():
                    if vn == "None" and base == "core::option::Option":
                        vs["None"] = ({}, gs)
                    elif vn == "Err" and base == "core::result::Result":
                        ev = pl.get("0")
                        ety = targs[1] if len(targs) > 1 else None
                        src_ty = getattr(ev, "ty", None)
                        if ety and src_ty != ety:
                            ev = self.top(ety, sym + ("err",))
                        vs["Err"] = ({"0": ev}, gs)
                if vs:
                    return AEnum(dest_ty, vs)
            return self.fresh_top(st, dest_ty, sym)
        # Option / Result combinators
        if name == "core::result::Result::<T, E>::ok":
            e = args[0]
            if isinstance(e, AEnum):
                vs = {}
                for vn, (pl, gs) in e.variants.items():
                    if vn == "Ok":
                        vs["Some"] = ({"0": pl["0"]}, gs)
                    else:
                        vs["None"] = ({}, gs)
                return AEnum(dest_ty, vs)
            return self.fresh_top(st, dest_ty, sym)
        if name == "core::result::Result::<T, E>::map_err":
            e, f = args[0], args[1]
            if isinstance(e, AEnum):
                out = None
                for vn, (pl, gs) in e.variants.items():
                    if vn == "Ok":
                        r = AEnum(dest_ty, {"Ok": (pl, gs)})
                    else:
                        s2 = variant_state(gs)
                        if s2 is None:
                            continue
                        rv = self.call_closure(s2, f, [pl["0"]], frame, t)
                        if rv is None:
                            continue
                        r = AEnum(dest_ty, {"Err": ({"0": rv}, gs)})
                    out = r if out is None else self.join_val(out, r)
                return out
            return self.fresh_top(st, dest_ty, sym)
        if name in ("core::option::Option::<T>::and_then", "core::result::Result::<T, E>::and_then",
                    "core::option::Option::<T>::map", "core::result::Result::<T, E>::map"):
            e, f = args[0], args[1]
            is_map = name.endswith("::map")
            okv = "Some" if "Option" in name else "Ok"
            if isinstance(e, AEnum):
                out = None
                for vn, (pl, gs) in e.variants.items():
                    if vn == okv:
                        s2 = variant_state(gs)
                        if s2 is None:
                            continue
                        rv = self.call_closure(s2, f, [pl["0"]], frame, t)
                        if rv is None or rv is BOTTOM:
                            continue
                        if is_map:
                            r = AEnum(dest_ty, {okv: ({"0": rv}, gs)})
                        else:
                            r = with_guards(rv, gs)
                            if isinstance(r, AEnum):
                                r = AEnum(dest_ty or r.ty, r.variants)
                    else:
                        r = AEnum(dest_ty, {vn: (pl, gs)})
                    out = r if out is None else self.join_val(out, r)
                return out
            return self.fresh_top(st, dest_ty, sym)
        if name in ("core::option::Option::<T>::unwrap", "core::result::Result::<T, E>::unwrap",
                    "core::option::Option::<T>::expect", "core::result::Result::<T, E>::expect"):
            e = args[0]
            if isinstance(e, AEnum):
                bad = [vn for vn in e.variants if vn in ("None", "Err")]
                if bad:
                    self.sites.append(Site("panic", frame["fn"], t.span, what="call:" + name,
                                           state=st.copy(), chain=frame["chain"],
                                           top=self.top_level))
                for vn, (pl, gs) in e.variants.items():
                    if vn in ("Some", "Ok"):
                        return pl["0"]
                return None
            self.sites.append(Site("panic", frame["fn"], t.span, what="call:" + name,
                                   state=st.copy(), chain=frame["chain"], top=self.top_level))
            return self.fresh_top(st, dest_ty, sym)
        if name == "core::iter::Iterator::try_fold" or name.endswith("::try_fold"):
            # acc = init; loop { acc = f(acc, item)? }  -> R::from_output(acc)
            if len(args) >= 3:
                init, f = args[1], args[2]
                base, targs = split_generics(dest_ty or "")
                okv, badv = ("Some", "None") if base == "core::option::Option" else ("Ok", "Err")
                item_ty = None
                fn = self.world.fns.get(f.fid) if isinstance(f, AClosure) else None
                if fn is not None and fn.body.argc >= 3:
                    item_ty = fn.body.local_ty(3)
                acc = init
                bad = None
                for it in range(8):
                    item = self.fresh_top(st, item_ty, sym + ("item",)) if item_ty else ATop()
                    if it >= 4:
                        acc = self._widen_val(acc, acc, st) if not isinstance(acc, AStruct) \
                            else self._widen_val(acc, AStruct(acc.ty, {k: ATop() for k in acc.fields}), st) \
                            if acc.ty not in self.inv else AStruct(acc.ty, {f_: AInt(s_, None, None) for f_, s_ in self.inv[acc.ty].items()})
                    r = self.call_closure(st.copy(), f, [acc, item], frame, t)
                    if not isinstance(r, AEnum):
                        return self.fresh_top(st, dest_ty, sym)
                    if badv in r.variants:
                        b = AEnum(dest_ty, {badv: (r.variants[badv][0], ({},))})
                        bad = b if bad is None else self.join_val(bad, b)
                    if okv not in r.variants:
                        break
                    nacc = self.join_val(acc, r.variants[okv][0]["0"])
                    if _val_eq(nacc, acc):
                        break
                    acc = nacc
                out = AEnum(dest_ty, {okv: ({"0": _strip_all(acc)}, ({},))})
                if bad is not None:
                    out = self.join_val(out, bad)
                return out
        if name == "core::iter::Iterator::next" and dest_ty:
            return self.fresh_top(st, dest_ty, sym)
        return NotImplemented

    def val_sym(self, v):
        """a symbol identifying an opaque value (for atoms like from_le_bytes(x))"""
        if isinstance(v, ATop):
            return ("opaque", v.ty)
        if isinstance(v, _Opaque):
            return v.sym
        if isinstance(v, AStruct):
            return ("struct", v.ty)
        return ("val", type(v).__name__)


class _Opaque(ATop):
    __slots__ = ("sym",)

    def __init__(self, ty, sym):
        ATop.__init__(self, ty)
        self.sym = sym


class _Bytes(ATop):
    """result of x.to_le_bytes(): remembers endianness, int type and the encoded value"""
    __slots__ = ("meth", "ity", "src")

    def __init__(self, ty, meth, ity, src):
        ATop.__init__(self, ty)
        self.meth = meth
        self.ity = ity
        self.src = src


def p_const_of(p):
    if not p:
        return 0
    if len(p) == 1 and () in p:
        return p[()]
    return None


def _guards_join(a, b):
    out = list(a)
    for g in b:
        if not any(g == x for x in out):
            out.append(g)
    if len(out) > 8:
        # collapse: keep keys present in all, union the sets
        keys = set(out[0])
        for g in out[1:]:
            keys &= set(g)
        m = {}
        for k in keys:
            s = out[0][k]
            for g in out[1:]:
                s = s.join(g[k])
            m[k] = s
        return (m,)
    return tuple(out)


def _guards_meet(a, b):
    """conjunction of two guard disjunctions (distribute)"""
    out = []
    for g in a:
        for h in b:
            m = dict(g)
            okk = True
            for k, s in h.items():
                new = m.get(k, IntSet.all()).meet(s)
                if new.empty():
                    okk = False
                    break
                m[k] = new
            if okk and not any(m == x for x in out):
                out.append(m)
    if len(out) > 8:
        return _guards_join(tuple(out[:1]), tuple(out[1:]))
    return tuple(out) if out else ({},)


def _strip_all(v):
    if isinstance(v, AInt):
        return AInt(v.set, None, v.ty)
    if isinstance(v, AStruct):
        return AStruct(v.ty, {k: _strip_all(x) for k, x in v.fields.items()})
    return v


def _val_eq(a, b):
    if a is b:
        return True
    if type(a) is not type(b):
        return False
    if isinstance(a, AInt):
        return a.set == b.set and ((a.lin is None and b.lin is None) or
                                   (a.lin is not None and b.lin is not None
                                    and p_key(a.lin) == p_key(b.lin)))
    if isinstance(a, ABool):
        return a.known == b.known
    if isinstance(a, AStruct):
        return a.fields.keys() == b.fields.keys() and all(
            _val_eq(a.fields[k], b.fields[k]) for k in a.fields)
    if isinstance(a, AEnum):
        if a.variants.keys() != b.variants.keys():
            return False
        for n in a.variants:
            pa, ga = a.variants[n]
            pb, gb = b.variants[n]
            if pa.keys() != pb.keys() or not all(_val_eq(pa[k], pb[k]) for k in pa):
                return False
            if len(ga) != len(gb) or any(x != y for x, y in zip(ga, gb)):
                return False
        return True
    if isinstance(a, ARef):
        return _val_eq(a.val, b.val)
    if isinstance(a, AClosure):
        return a.fid == b.fid and all(_val_eq(x, y) for x, y in zip(a.upvars, b.upvars))
    if isinstance(a, AFn):
        return a.fid == b.fid
    if isinstance(a, ADisc):
        return a.place == b.place and _val_eq(a.enum, b.enum)
    if isinstance(a, ATop):
        return True
    return False
