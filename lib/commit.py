"""commit (E6 FLOW-commit) — commitment maps of digest functions, from MIR.

A digest function creates BLAKE2b states with a personalisation and feeds them values.  For one
function (optionally specialised to one TxVersion by pruning the branches that contradict it —
conditional constant propagation over the CFG, nothing is executed) this module lists, per hash
state in source order: its personalisation and the ordered values written into it, each described
by where it comes from (accessor chain of a loop element / parameter field, a slice with constant
bounds, the digest of another hash state, the result of another digest function), whether it is
written once or once per element of a loop, and — for values chosen between alternatives — the
alternatives with the tests that select them.
"""
import re

import assume as S
import defuse
import sqlfx

PASS = re.compile(r"::(as_ref|to_bytes|to_repr|as_bytes|from|into|deref|to_i64_le_bytes|to_u64_le_bytes|"
                  r"to_le_bytes|borrow|clone|as_slice|copied|cloned|encode|as_inner|unwrap|as_mut)$")
HASHER = re.compile(r"::hasher$|blake2b_simd::Params::to_state$|core::vec::Vec::<T>::(new|with_capacity)$")
VECNEW = re.compile(r"core::vec::Vec::<T>::(new|with_capacity)$")
VEC_U8 = "core::vec::Vec<u8>"
WRITE = re.compile(r"::(write_all|write_u8|write_u16_le|write_u32_le|write_u64_le|write_i64_le|update|"
                   r"extend_from_slice)$")
ONESHOT = re.compile(r"blake2b_simd::Params::hash$")


def is_sink_ty(ty):
    """a hash state or a byte buffer that is later hashed"""
    t = re.sub(r"^(&('\w+ )?(mut )?)+", "", ty or "")
    return "StateWrite" in t or t.startswith("blake2b_simd::State") or t == VEC_U8


class DefUseL(defuse.DefUse):
    MAXD = 60

    def origin_local(self, local, depth=0):
        o = defuse.DefUse.origin_local(self, local, depth)
        if o[0] == "call":
            return o + (local,)
        if o == ("local", local):
            d = self.single(local)
            if d is not None and d[0] == "stmt" and d[2].rv.kind == "repeat" and d[2].rv.ops:
                return ("agg", "repeat", [self.origin(d[2].rv.ops[0], depth + 1)])
        return o


def _range_txt(o):
    if o[0] == "agg":
        k = o[1].rsplit("::", 1)[-1]
        vals = [str(x[1]) if x[0] == "const" else "?" for x in o[2]]
        if k == "RangeFull":
            return "[..]"
        return {"RangeTo": "[..%s]", "RangeFrom": "[%s..]"}.get(k, "[%s]") % \
            ("..".join(vals) if k == "Range" else (vals[0] if vals else ""))
    return "[?]"


class Maps:
    def __init__(self, world, fn, version=None, version_adt=None):
        self.w, self.f, self.b = world, fn, fn.body
        self.du = DefUseL(fn.body)
        self.cyc = sqlfx.cyclic_blocks(fn.body)
        self.version = version
        self.vadt = version_adt
        self.feasible = self._feasible()

    # ---- version specialisation
    def _vidx(self):
        names = [v["name"] for v in self.w.adts[self.vadt]["variants"]]
        return names.index(self.version)

    def _eval_helper(self, g):
        """result of a helper that only looks at the version: ('bool', v) | ('const', name) | None"""
        m = Maps(self.w, g, self.version, self.vadt)
        vals = set()
        for bi in m.feasible:
            for s in g.body.blocks[bi].stmts:
                if s.kind == "=" and s.place.local == 0 and not s.place.proj and s.rv.kind == "use":
                    op = s.rv.ops[0]
                    if op.kind == "const" and op.ty == "bool":
                        vals.add(("bool", bool(op.info.get("v"))))
                    elif op.kind == "const" and "def" in op.info:
                        vals.add(("const", op.info["def"]))
                    else:
                        o = m.du.origin(op)
                        if o[0] == "constdef":
                            vals.add(("const", o[1]))
                        elif o[0] == "const" and isinstance(o[1], bool):
                            vals.add(("bool", o[1]))
                        else:
                            vals.add(("other", defuse.show(o)))
        return next(iter(vals)) if len(vals) == 1 else None

    def _is_version_helper(self, t):
        g = self.w.fns.get(t.callee.target_id()) if t.callee.indirect is None else None
        if g is None or g.is_closure() or g.body.argc != 1:
            return None
        ty = g.body.local_ty(1)
        if self.vadt and re.match(r"^&?(mut )?%s$" % re.escape(self.vadt), ty):
            return g
        return None

    def _feasible(self):
        b = self.b
        if not self.version:
            return {i for i, blk in enumerate(b.blocks) if not blk.cleanup}
        facts = {}
        vi = self._vidx()
        for bi, blk in enumerate(b.blocks):
            t = blk.term
            if t.kind == "switch" and t.discr.kind in ("copy", "move") and not t.discr.place.proj:
                for s in blk.stmts:
                    if s.kind == "=" and s.rv.kind == "disc" and s.place.local == t.discr.place.local:
                        ty = b.local_ty(s.rv.place.local)
                        src = defuse.show(self.du.origin_place(s.rv.place))
                        if re.match(r"^&?(mut )?%s$" % re.escape(self.vadt), ty) or src.endswith(".version"):
                            k = S._disc_key(b, self.du, bi, t.discr.place.local)
                            if k:
                                facts[k] = frozenset({vi})
        cr = {}
        for bb, t in b.calls():
            if b.blocks[bb].cleanup:
                continue
            g = self._is_version_helper(t)
            if g is not None:
                r = self._eval_helper(g)
                if r and r[0] == "bool":
                    cr[bb] = S.B(r[1])
        res = S.explore(b, 0, {}, du=self.du, facts=facts, call_results=cr, limit=20000)
        return set(res.blocks)

    # ---- describing values
    def _root_local(self, op):
        """the hash-state local behind `&mut h` (through reborrows and moves)"""
        n = 0
        while op is not None and op.kind in ("copy", "move") and n < 8:
            n += 1
            if not op.place.proj and is_sink_ty(self.b.local_ty(op.place.local)) and \
                    not self.b.local_ty(op.place.local).startswith("&"):
                return op.place.local
            d = self.du.single(op.place.local)
            if d is None or d[0] != "stmt":
                return None
            rv = d[2].rv
            if rv.kind in ("ref", "raw"):
                pl = rv.place
                if not pl.proj:
                    if is_sink_ty(self.b.local_ty(pl.local)) and not self.b.local_ty(pl.local).startswith("&"):
                        return pl.local
                    import zf
                    op = zf.Op("copy", zf.Place([pl.local]))
                    continue
                if tuple(pl.proj) == ("*",):
                    import zf
                    op = zf.Op("copy", zf.Place([pl.local]))
                    continue
                return None
            if rv.kind == "use":
                op = rv.ops[0]
                continue
            return None
        return None

    def describe(self, o, depth=0):
        if not isinstance(o, tuple) or depth > 30:
            return "?"
        k = o[0]
        if k in ("ref", "deref", "variant"):
            return self.describe(o[1], depth + 1)
        if k == "cast":
            return self.describe(o[2], depth + 1)
        if k == "const":
            return "const:%s" % (o[1],)
        if k == "constdef":
            return "CONST:" + o[1].rsplit("::", 1)[-1]
        if k == "arg":
            st = short_ty(self.b.local_ty(o[1] + 1))
            if st:
                same = [i for i in range(1, self.b.argc + 1) if short_ty(self.b.local_ty(i)) == st]
                return st if len(same) == 1 else "%s#%d" % (st, o[1])
            return self.b.local_name(o[1] + 1) or "arg%d" % o[1]
        if k == "local":
            return self.select(o[1], depth + 1)
        if k == "field":
            nm = o[2][1:]
            base = self.describe(o[1], depth + 1)
            if nm.isdigit():
                return base if base.endswith("[*]") or "next(" in defuse.show(o[1]) else "%s.%s" % (base, nm)
            return "%s.%s" % (base, nm)
        if k == "proj":
            return "%s%s" % (self.describe(o[1], depth + 1), o[2] if o[2].startswith("[") else "")
        if k == "agg":
            if o[1].startswith("closure:") and not o[2] and depth < 12:
                g = self.w.fns.get(o[1][len("closure:"):])
                if g is not None and g.body.argc == 2:
                    return "|x| " + re.sub(r"^\(?x\)?\.0\b", "x", Maps(self.w, g, self.version, self.vadt).result().replace(
                        short_ty(g.body.local_ty(2)) or "\0", "x"))
            if o[1] == "array":
                return "[%s]" % ", ".join(self.describe(x, depth + 1) for x in o[2])
            return "%s{%s}" % (o[1].rsplit("::", 1)[-1], ", ".join(self.describe(x, depth + 1) for x in o[2]))
        if k == "bin":
            return "(%s %s %s)" % (self.describe(o[2], depth + 1), o[1], self.describe(o[3], depth + 1))
        if k == "un":
            return "%s(%s)" % (o[1], self.describe(o[2], depth + 1))
        if k == "disc":
            inner = o[1]
            if "next(" in defuse.show(inner):
                return "loop"
            return "variant(%s)" % self.describe(inner, depth + 1)
        if k == "call":
            name = o[1]
            last = name.rsplit("::", 1)[-1]
            if re.search(r"Iterator>?::next$", name):
                src = defuse.strip_refs(o[2][0]) if o[2] else None
                hops = 0
                while src is not None and hops < 8:
                    hops += 1
                    if src[0] == "call" and re.search(r"::(into_iter|iter|iter_mut|enumerate|by_ref)$", src[1]) \
                            and src[2]:
                        src = defuse.strip_refs(src[2][0])
                        continue
                    if src[0] == "local":
                        ds = [d for d in self.du.defs.get(src[1], []) if d[0] in ("stmt", "call")]
                        if len(ds) == 1 and ds[0][0] == "stmt" and ds[0][2].rv.kind == "use":
                            src = defuse.strip_refs(self.du.origin(ds[0][2].rv.ops[0]))
                            continue
                        if len(ds) == 1 and ds[0][0] == "call":
                            x = ds[0][2]
                            src = ("call", x.callee.target_p() if x.callee.indirect is None else "?",
                                   [self.du.origin(a) for a in x.args])
                            continue
                    break
                return "%s[*]" % self.describe(src, depth + 1) if src is not None else "elem"
            if PASS.search(name) and o[2]:
                return self.describe(o[2][0], depth + 1)
            if last in ("index", "index_mut") and len(o[2]) == 2:
                ix = defuse.strip_refs(o[2][1])
                if ix[0] != "agg":
                    return "%s[%s]" % (self.describe(o[2][0], depth + 1), self.describe(ix, depth + 1))
                return self.describe(o[2][0], depth + 1) + _range_txt(ix)
            if ONESHOT.search(name) and len(o[2]) == 2:
                l = self._buffer_local(o[2][1])
                if l is not None:
                    return "#h%d" % l
            if VECNEW.search(name) and len(o) > 3 and self.b.local_ty(o[3]) == VEC_U8:
                return "#h%d" % o[3]
            if last == "finalize" and o[2]:
                inner = defuse.strip_refs(o[2][0])
                if inner[0] == "call" and HASHER.search(inner[1]) and len(inner) > 3:
                    return "#h%d" % inner[3]
                return "finalize(%s)" % self.describe(o[2][0], depth + 1)
            tg = [g for g in self.w.by_p.get(name, [])]
            if tg and not o[2]:
                return "fn:%s()" % last
            if tg or name.startswith("zcash_primitives::") or name.startswith("zcash_transparent::"):
                args = [self.describe(a, depth + 1) for a in o[2]]
                if len(args) == 1:
                    return "%s.%s()" % (args[0], last)
                return "fn:%s(%s)" % (last, ", ".join(args))
            if o[2]:
                args = [self.describe(a, depth + 1) for a in o[2]]
                return "%s.%s(%s)" % (args[0], last, ", ".join(args[1:])) if len(args) > 1 \
                    else "%s.%s()" % (args[0], last)
            return "%s()" % last
        return "?"

    def select(self, local, depth=0):
        """a local with several definitions: the alternatives and the tests that choose them"""
        defs = [d for d in self.du.defs.get(local, []) if d[1] in self.feasible]
        nm = self.b.local_name(local)
        if not defs or depth > 6:
            return nm or "_%d" % local
        stack = self.__dict__.setdefault("_sel_stack", [])
        if local in stack or len(stack) > 8:
            return nm or "_%d" % local           # loop-carried: name it, do not unfold again
        stack.append(local)
        try:
            return self._select(local, defs, nm, depth)
        finally:
            stack.pop()

    def _select(self, local, defs, nm, depth):
        if self.du.single(local) is not None and depth < 6:
            o = self.du.origin_local(local)
            if o[0] != "local":
                return self.describe(o, depth + 1)
        alts = []
        for kind, bi, x in defs:
            if kind == "call":
                name = x.callee.target_p() if x.callee.indirect is None else "?"
                val = self.describe(("call", name, [self.du.origin(a) for a in x.args]), depth + 1)
            elif kind == "stmt" and x.rv.kind == "use":
                val = self.describe(self.du.origin(x.rv.ops[0]), depth + 1)
            elif kind == "stmt" and x.rv.kind == "bin":
                val = "(%s %s %s)" % (self.describe(self.du.origin(x.rv.ops[0]), depth + 1), x.rv.op,
                                      self.describe(self.du.origin(x.rv.ops[1]), depth + 1))
            else:
                val = "?"
            alts.append((bi, val))
        if len(alts) == 1:
            return alts[0][1]
        alts = self._path_alternatives(alts)
        return "select{%s}" % "; ".join("%s => %s" % (" & ".join(g) or "otherwise", v)
                                        for g, v in sorted(alts))

    def _bool_join(self, local, truth):
        """`let c = a || b;` / `let c = a && b;` lower to a two-definition boolean (a constant on the short-circuit
        edge, the second operand on the other). Returns the tested value as a conjunction "x & y" when the observed
        truth allows one: `!c` for an OR-join is `!a & !b`, `c` for an AND-join is `a & b`; None otherwise."""
        import guards as G_
        defs = self.du.defs.get(local, [])
        if len(defs) != 2:
            return None
        const = [(bi, x) for k, bi, x in defs if k == "stmt" and x.rv.kind == "use" and x.rv.ops[0].kind == "const" and
                 x.rv.ops[0].info.get("v") in (0, 1)]
        other = [(bi, x, k) for k, bi, x in defs if not (k == "stmt" and x.rv.kind == "use" and x.rv.ops[0].kind == "const")]
        if len(const) != 1 or len(other) != 1 or not (other[0][2] == "call" or (other[0][2] == "stmt" and other[0][1].rv.kind == "use")):
            return None
        cv = bool(const[0][1].rv.ops[0].info["v"])
        ec_c = G_.edge_conditions(self.b, const[0][0])
        ec_o = G_.edge_conditions(self.b, other[0][0])
        only_c = [e for e in ec_c if e not in ec_o]
        only_o = [e for e in ec_o if e not in ec_c]
        if len(only_c) != 1 or len(only_o) != 1 or only_c[0][0] != only_o[0][0]:
            return None
        sw = only_c[0][0]
        a_true_on_const = G_.truth(self.b.blocks[sw].term, only_c[0][1])
        if a_true_on_const is None:
            return None
        a = self.describe(self.du.origin(self.b.blocks[sw].term.discr), 3)
        if other[0][2] == "call":
            ce = other[0][1].callee
            b_ = self.describe(("call", ce.target_p() if ce.indirect is None else "?",
                                [self.du.origin(a_) for a_ in other[0][1].args]), 3)
        else:
            b_ = self.describe(self.du.origin(other[0][1].rv.ops[0]), 3)
        if " & " in a or " & " in b_ or "select{" in a or "select{" in b_:
            return None
        neg = lambda x: x[1:] if x.startswith("!") else "!" + x
        if cv and a_true_on_const and truth is False:          # c = a || b, observed false
            return "%s & %s" % (neg(a), neg(b_))
        if (not cv) and (not a_true_on_const) and truth is True:   # c = a && b, observed true
            return "%s & %s" % (a, b_)
        if cv and a_true_on_const and truth is True:           # c = a || b, observed true: one atom, a disjunction
            return "(%s | %s)" % (a, b_)
        if (not cv) and (not a_true_on_const) and truth is False:  # c = a && b, observed false
            return "(%s | %s)" % (neg(a), neg(b_))
        return None

    def _render_edge(self, sw, v):
        t = self.b.blocks[sw].term
        o_ = self.du.origin(t.discr)
        if o_[0] == "local":
            vals = [a for a, _t in t.arms]
            tr = (v != 0) if v in (0, 1) else (True if (v == "else" and vals == [0]) else (False if (v == "else" and vals == [1]) else None))
            if tr is not None:
                j = self._bool_join(o_[1], tr)
                if j is not None:
                    return j
            nm = self.b.local_name(o_[1])
            if nm and len(self.du.defs.get(o_[1], [])) > 1:
                return ("!" if tr is False else "") + nm if tr is not None else "%s==%s" % (nm, v)
        cond = self.describe(self.du.origin(t.discr), 3)
        if v == 0:
            return "!" + cond
        if v == "else" and [a for a, _t in t.arms] == [0]:
            return cond
        return "%s==%s" % (cond, v)

    def _path_alternatives(self, alts, limit=96):
        """[(def block, value)] -> [(tests, value)]: one entry per loop-free path from the closest common
        dominator of the definitions to each definition, with every test taken on the way (so the tests of
        an alternative are its full path condition below the common dominator, not only the tests that
        dominate it: a `match` with guards reaches its fall-through arm over several paths). Falls back
        to the dominating tests when the region is cyclic or has too many paths."""
        b = self.b
        blocks = [bi for bi, _v in alts]
        doms = [b.dominators().get(x, set()) | {x} for x in blocks]
        common = set.intersection(*doms) if doms else set()
        fallback = [(self.guards(bi), v) for bi, v in alts]
        if not common or len(set(blocks)) != len(blocks):
            return fallback
        c = max(common, key=lambda x: len(b.dominators().get(x, set())))
        if c in blocks:
            return fallback
        outer = self.guards(c)
        vals = dict(alts)
        out = []

        def go(x, tests, seen):
            if len(out) > limit or x in seen:
                raise ValueError
            if x in vals:
                out.append((outer + tuple(tests), vals[x]))
                return
            seen = seen | {x}
            t = b.blocks[x].term
            if t.kind == "switch":
                arms = [(v, tb) for v, tb in list(t.arms) + [("else", t.otherwise)]
                        if tb is not None and tb in self.feasible]
                for v, tb in arms:
                    # only arms from which some definition is still reachable
                    if not any(d == tb or d in b.reachable(tb) for d in blocks):
                        continue
                    go(tb, tests + ([self._render_edge(x, v)] if len(arms) > 1 else []), seen)
                return
            for y in t.succs():
                if y in self.feasible and not b.blocks[y].cleanup and \
                        any(d == y or d in b.reachable(y) for d in blocks):
                    go(y, tests, seen)
        try:
            go(c, [], frozenset())
        except (ValueError, RecursionError):
            return fallback
        if {v for _g, v in out} != set(vals.values()) and len(out) < len(alts):
            return fallback
        # merge identical entries
        return sorted(set(out))

    def guards(self, bb):
        """tests (rendered) that decide whether block bb runs, innermost last"""
        import vc
        b = self.b
        out = []
        cur = bb
        hops = 0
        while hops < 10:
            sw = vc.controlling_switch(b, cur)
            if sw is None:
                break
            hops += 1
            t = b.blocks[sw].term
            arms = list(t.arms) + [("else", t.otherwise)]
            inside = [v for v, tb in arms if tb is not None and (tb == bb or b.dominates(tb, bb))
                      and tb in self.feasible and self._edge_only(sw, tb)]
            live = [v for v, tb in arms if tb is not None and tb in self.feasible]
            if len(inside) == 1 and len(live) > 1:
                out.append(self._render_edge(sw, inside[0]))
            cur = sw
        return tuple(reversed(out))

    def _preds(self):
        if not hasattr(self, "_pred"):
            self._pred = {}
            for bi, blk in enumerate(self.b.blocks):
                if blk.cleanup:
                    continue
                for x in blk.term.succs():
                    self._pred.setdefault(x, set()).add(bi)
        return self._pred

    def _edge_only(self, sw, tb):
        """tb is entered only through the edge sw -> tb (other predecessors are inside the region tb
        dominates, i.e. loop back edges) — then "tb dominates x" means that edge was taken"""
        return all(p == sw or self.b.dominates(tb, p) for p in self._preds().get(tb, ())
                   if p in self.feasible)

    def exclusive_exhaustive(self, bbs):
        """the blocks are pairwise unreachable from each other and every path from their closest
        common dominator to a return passes through one of them: exactly one of them runs"""
        b = self.b
        bbs = list(bbs)
        for x in bbs:
            r = set()
            for sx in b.succs(x):
                r |= b.reachable(sx)
            if any(y in r for y in bbs):
                return False
        doms = [b.dominators().get(x, set()) | {x} for x in bbs]
        common = set.intersection(*doms) if doms else set()
        if not common:
            return False
        d = max(common, key=lambda c: len(b.dominators().get(c, set())))
        seen, work = set(), [d]
        while work:
            x = work.pop()
            if x in seen or x in bbs or x not in self.feasible:
                continue
            seen.add(x)
            t = b.blocks[x].term
            if t.kind == "return":
                return False
            work.extend(t.succs())
        return True

    # ---- the map
    def hashers(self):
        out = []
        b = self.b
        for bb, t in sorted(b.calls(), key=lambda x: (x[1].span.line, x[1].span.col)):
            if bb not in self.feasible or t.callee.indirect is not None or not HASHER.search(t.callee.target_p()):
                continue
            if t.dest is None:
                continue
            p0 = t.callee.target_p()
            if p0.endswith("::to_state"):
                out.append({"local": t.dest.local, "pers": self._params_pers(self.du.origin(t.args[0])),
                            "line": t.span.line, "writes": [], "bbs": []})
                continue
            if VECNEW.search(p0):
                if t.dest.proj or self.b.local_ty(t.dest.local) != VEC_U8:
                    continue
                out.append({"local": t.dest.local, "pers": "buf%d" % len([h for h in out if str(h["pers"]).startswith("buf")]),
                            "line": t.span.line, "writes": [], "bbs": []})
                continue
            o = defuse.strip_refs(self.du.origin(t.args[0]))
            pers = None
            if o[0] == "constdef":
                pers = o[1].rsplit("::", 1)[-1]
            elif o[0] == "call":
                g = self.w.fns.get(next((f.id for f in self.w.by_p.get(o[1], [])), None))
                r = self._eval_helper(g) if g is not None and self.version else None
                pers = r[1].rsplit("::", 1)[-1] if r and r[0] == "const" else "fn:" + o[1].rsplit("::", 1)[-1]
                if not (r and r[0] == "const") and g is not None and g.body is not None and \
                        re.match(r"^\[u8; \d+\]$", g.body.local_ty(0) or ""):
                    # a helper that builds the personalisation (PREFIX || branch id) from its arguments
                    built = Maps(self.w, g)._built_personal(0, [defuse.strip_refs(a) for a in o[2]])
                    if built != "built":
                        pers = built
            elif o[0] == "local" or (o[0] == "agg" and o[1] == "repeat"):
                pers = self._built_personal(o[1])
            else:
                pers = self.describe(o)
            out.append({"local": t.dest.local, "pers": pers, "line": t.span.line, "writes": [], "bbs": []})
        by_local = {h["local"]: h for h in out}
        for bb, t in b.calls():
            if bb in self.feasible and t.callee.indirect is None and ONESHOT.search(t.callee.target_p()):
                l = self._buffer_local(self.du.origin(t.args[1]))
                if l in by_local:
                    by_local[l]["pers"] = self._params_pers(self.du.origin(t.args[0]))
        events = []
        for bb, t in b.calls():
            if bb not in self.feasible or t.callee.indirect is not None:
                continue
            p = t.callee.target_p()
            hs = [(i, self._root_local(a)) for i, a in enumerate(t.args)]
            hs = [(i, h) for i, h in hs if h in by_local]
            if not hs or HASHER.search(p) or p.endswith("::finalize"):
                continue
            i, h = hs[0]
            others = [a for j, a in enumerate(t.args) if j != i]
            if WRITE.search(p):
                val = self.describe(self.du.origin(others[0])) if others else "?"
            elif re.search(r"zcash_encoding::(Array|Vector)::write", p):
                src = self.describe(self.du.origin(others[0])) if others else "?"
                val = "each(%s)" % src
                for a in others[1:]:
                    oo = self.du.origin(a)
                    if oo[0] == "agg" and oo[1].startswith("closure:"):
                        g = self.w.fns.get(oo[1][len("closure:"):])
                        if g is not None:
                            inner = Maps(self.w, g).stream_writes()
                            val = "each(%s: %s)" % (src, ", ".join(inner))
            elif re.search(r"::write$", p):
                val = "%s.write()" % (self.describe(self.du.origin(others[0])) if others else "?")
            elif self.w.by_p.get(p) and re.search(r"::write_\w+$", p) and others:
                val = "fn:%s(%s)" % (p.rsplit("::", 1)[-1], ", ".join(self.describe(self.du.origin(a)) for a in others))
            else:
                continue
            g = [x for x in self.guards(bb) if "Try" not in x and "branch" not in x and "loop" not in x
                 and "unwrap" not in x and "next" not in x]
            events.append(((t.span.line, t.span.col, bb), h, val, bb in self.cyc, g))
        for pos, h, val, loop, g in sorted(events, key=lambda e: e[0]):
            by_local[h]["writes"].append((("*" if loop else "") + val, tuple(g)))
            by_local[h]["bbs"].append(pos[2])
        # references between hashers become personalisation names
        names = {"#h%d" % h["local"]: "#" + str(h["pers"]) for h in out}
        for h in out:
            h["writes"] = [(re.sub(r"#h\d+", lambda m: names.get(m.group(0), m.group(0)), v), g)
                           for v, g in h["writes"]]
        return out

    def stream_writes(self):
        """for an element-writer closure |w, x| ...: what it writes to w, described from x"""
        out = []
        for bb, t in sorted(self.b.calls(), key=lambda x: (x[1].span.line, x[1].span.col)):
            if self.b.blocks[bb].cleanup or t.callee.indirect is not None:
                continue
            p = t.callee.target_p()
            if WRITE.search(p) and len(t.args) >= 2:
                out.append(self.describe(self.du.origin(t.args[1])))
            elif re.search(r"::write$", p) and t.args:
                out.append("%s.write()" % self.describe(self.du.origin(t.args[0])))
        return out

    def _buffer_local(self, o):
        """the Vec<u8> local behind `&data` / `&*data` / `data.as_slice()`"""
        n = 0
        while isinstance(o, tuple) and o and n < 12:
            n += 1
            if o[0] in ("ref", "deref"):
                o = o[1]
            elif o[0] == "call" and VECNEW.search(o[1]) and len(o) > 3 and self.b.local_ty(o[3]) == VEC_U8:
                return o[3]
            elif o[0] == "call" and PASS.search(o[1]) and o[2]:
                o = o[2][0]
            else:
                return None
        return None

    def _params_pers(self, o):
        """personalisation of a blake2b Params builder chain"""
        n = 0
        while isinstance(o, tuple) and o and n < 12:
            n += 1
            if o[0] in ("ref", "deref"):
                o = o[1]
            elif o[0] == "call" and o[1].endswith("Params::personal") and len(o[2]) == 2:
                a = defuse.strip_refs(o[2][1])
                while a[0] == "call" and PASS.search(a[1]) and a[2]:
                    a = defuse.strip_refs(a[2][0])
                if a[0] == "constdef":
                    return a[1].rsplit("::", 1)[-1]
                if a[0] == "local" or (a[0] == "agg" and a[1] == "repeat"):
                    return self._built_personal(a[1])
                return self.describe(a)
            elif o[0] == "call" and o[1].startswith("blake2b_simd::Params::") and o[2]:
                o = o[2][0]
            else:
                return None
        return None

    def _built_personal(self, local, call_args=None):
        """personal = PREFIX || branch id: which prefix constant was copied in (call_args: the caller's
        argument origins when this body is a helper that receives the prefix as a parameter)"""
        for bb, t in self.b.calls():
            if t.callee.indirect is None and t.callee.target_p().endswith("::copy_from_slice"):
                dst = defuse.show(self.du.origin(t.args[0]))
                if True:
                    o = defuse.strip_refs(self.du.origin(t.args[1]))
                    while o[0] == "call" and PASS.search(o[1]) and o[2]:
                        o = defuse.strip_refs(o[2][0])
                    if o[0] == "arg" and call_args is not None and o[1] < len(call_args):
                        o = call_args[o[1]]
                        while o[0] == "call" and PASS.search(o[1]) and o[2]:
                            o = defuse.strip_refs(o[2][0])
                    if o[0] == "constdef":
                        tail = [self.describe(self.du.origin(t2.args[1])) for _b2, t2 in self.b.calls()
                                if t2.callee.indirect is None and t2.callee.target_p().endswith("::write_u32_le")
                                and "index_mut" in defuse.show(self.du.origin(t2.args[0]))]
                        if not tail:
                            tail = [self.describe(self.du.origin(t2.args[1])) for _b2, t2 in
                                    sorted(self.b.calls(), key=lambda x: (x[1].span.line, x[1].span.col))
                                    if t2.callee.indirect is None and t2 is not t and
                                    t2.callee.target_p().endswith("::copy_from_slice")]
                        return "%s||%s" % (o[1].rsplit("::", 1)[-1], (tail or ["?"])[0])
        return "built"

    def result(self):
        """what the function returns, described"""
        return self.select(0)


def short_ty(ty):
    """`&[sapling::bundle::SpendDescription<A>]` -> `SpendDescription[]`"""
    if not ty:
        return None
    t = re.sub(r"^(&('\w+ )?(mut )?)+", "", ty)
    arr = False
    m = re.match(r"^\[(.*)\]$", t)
    if m:
        arr = True
        t = m.group(1)
        t = re.sub(r"^(&('\w+ )?(mut )?)+", "", t)
    opt = False
    m = re.match(r"^core::option::Option<(.*)>$", t)
    if m:
        opt = True
        t = re.sub(r"^(&('\w+ )?(mut )?)+", "", m.group(1))
    if t.startswith("("):
        inner = [short_ty(x.strip()) or "?" for x in _split_top(t[1:-1])]
        base = "(%s)" % ", ".join(inner)
    else:
        base = re.sub(r"<.*$", "", t).rsplit("::", 1)[-1]
    if not re.match(r"^[A-Z(]", base):
        return None if not (arr or opt) else (base + ("[]" if arr else "") + ("?" if opt else ""))
    return base + ("[]" if arr else "") + ("?" if opt else "")


def _split_top(s):
    out, depth, cur = [], 0, ""
    for ch in s:
        if ch in "<([":
            depth += 1
        elif ch in ">)]":
            depth -= 1
        if ch == "," and depth == 0:
            out.append(cur)
            cur = ""
        else:
            cur += ch
    if cur.strip():
        out.append(cur)
    return out


def show(hs):
    return [(h["pers"], [(v + ((" if " + " & ".join(g)) if g else "")) for v, g in h["writes"]]) for h in hs]
