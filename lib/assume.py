"""assume — "what is reachable if this call returned X" on a MIR body.

A small forward exploration of the CFG that tracks which locals carry a value whose outcome is
assumed (a bool known true/false, an enum known to be one of a set of variants) through copies,
moves, `!`, references, discriminant reads, `?` (Try::branch), `is_ok/is_some/...`, and the
variant-preserving combinators, and prunes switch arms that contradict the assumption.
It never evaluates anything else: all other branches are followed both ways.
"""
import re

TRY_BRANCH = "as core::ops::Try>::branch"
KEEP_ERR = re.compile(r"core::result::Result::<T, E>::(map_err|map|and_then|inspect_err|inspect)$|"
                      r"as rusqlite::OptionalExtension<T>>::optional$")
KEEP_OPT = re.compile(r"core::option::Option::<T>::(map|and_then|inspect|filter|copied|cloned|as_ref)$")
OK_OR = re.compile(r"core::option::Option::<T>::(ok_or|ok_or_else)$")
RES_OK = "core::result::Result::<T, E>::ok"

# enum encodings used by rustc for the std types we track
VARIANT_NUM = {
    "Option": {"None": 0, "Some": 1},
    "Result": {"Ok": 0, "Err": 1},
    "ControlFlow": {"Continue": 0, "Break": 1},
    "Ordering": {"Less": -1, "Equal": 0, "Greater": 1},
}


class Carrier:
    """kind: 'bool' (val True/False) | 'enum' (fam, set of variant names) | 'ref' (to carrier)
       | 'disc' (fam, set of variant names)"""
    __slots__ = ("kind", "val", "fam")

    def __init__(self, kind, val, fam=None):
        self.kind, self.val, self.fam = kind, val, fam

    def key(self):
        v = self.val
        if isinstance(v, (set, frozenset)):
            v = tuple(sorted(v))
        elif isinstance(v, Carrier):
            v = v.key()
        return (self.kind, v, self.fam)


def B(v):
    return Carrier("bool", v)


def E(fam, *variants):
    return Carrier("enum", frozenset(variants), fam)


class Result_:
    def __init__(self):
        self.blocks = set()
        self.returns = []     # (bb, retinfo)
        self.calls = []       # (bb, term) reached
        self.aggs = []        # (bb, stmt) aggregates reached
        self.too_big = False


def _stable(o, depth=0):
    """an origin tree that denotes one immutable value (no multiply-defined local inside)"""
    if not isinstance(o, tuple) or depth > 30:
        return True
    if o[0] == "local":
        return False
    return all(_stable(x, depth + 1) if isinstance(x, tuple) else
               (all(_stable(y, depth + 1) for y in x) if isinstance(x, list) else True)
               for x in o[1:])


def _disc_key(body, du, bb, local):
    """identity of the (immutable, single-definition) value whose discriminant is held by
    `local` (defined in block bb)"""
    if du is None:
        return None
    for s in body.blocks[bb].stmts:
        if s.kind == "=" and not s.place.proj and s.place.local == local and s.rv.kind == "disc":
            r = du.root_local(s.rv.place)
            if r is not None:
                return repr(r)
            o = du.origin_place(s.rv.place)
            while o and o[0] in ("ref", "deref"):
                o = o[1]
            if _stable(o):
                return repr(o)
    return None


def dominating_facts(body, du, bb):
    """discriminant values known at block bb from the switches that dominate it"""
    facts = {}
    for sb, blk in enumerate(body.blocks):
        t = blk.term
        if sb == bb or t.kind != "switch" or not body.dominates(sb, bb):
            continue
        d = t.discr
        if d.kind not in ("copy", "move") or d.place.proj:
            continue
        key = _disc_key(body, du, sb, d.place.local)
        if key is None:
            continue
        vals = [v for v, tgt in t.arms if tgt == bb or (body.dominates(tgt, bb) and tgt != sb)]
        # an arm target may be shared; require that the other arms cannot reach bb without sb
        if len(vals) >= 1 and not (t.otherwise == bb or body.dominates(t.otherwise, bb)):
            others = [tgt for v, tgt in t.arms if v not in vals] + [t.otherwise]
            if not any(_reach_avoiding(body, o, bb, sb) for o in others):
                facts[key] = frozenset(vals)
    return facts


def _reach_avoiding(body, start, target, avoid):
    seen = set()
    q = [start]
    while q:
        b = q.pop()
        if b in seen or b == avoid:
            continue
        seen.add(b)
        if b == target:
            return True
        q.extend(body.succs(b))
    return False


def explore(body, start_bb, carriers, stop_at=None, track_ret=True, limit=6000, inject=None,
            avoid=(), du=None, facts=None, call_results=None):
    """carriers: dict local -> Carrier (state at entry of start_bb). Returns Result_.
    With `du` (a DefUse) the exploration is also sensitive to repeated tests of the same
    immutable enum value: once a switch on its discriminant took an arm, later switches on the
    same value follow the same arm (`facts` seeds what is known at the start)."""
    res = Result_()
    seen = set()
    work = [(start_bb, carriers, None, tuple(sorted((facts or {}).items())))]
    while work:
        bb, car, rv, fk = work.pop()
        if bb in avoid:
            continue
        key = (bb, tuple(sorted((str(l), c.key()) for l, c in car.items())), rv, fk)
        if key in seen:
            continue
        seen.add(key)
        if len(seen) > limit:
            res.too_big = True
            break
        res.blocks.add(bb)
        car = dict(car)
        blk = body.blocks[bb]
        for si, s in enumerate(blk.stmts):
            if s.kind != "=":
                continue
            dst, r = s.place, s.rv
            new = None
            if inject and (bb, si) in inject:
                new = inject[(bb, si)]
            elif r.kind == "use" and r.ops[0].kind in ("copy", "move"):
                sp = r.ops[0].place
                if not sp.proj and sp.local in car:
                    new = car[sp.local]
                    if r.ops[0].kind == "move":
                        del car[sp.local]
                elif sp.proj == ("*",) and sp.local in car and car[sp.local].kind == "ref":
                    new = car[sp.local].val
                elif len(sp.proj) == 1 and (sp.local, sp.proj[0]) in car:
                    new = car[(sp.local, sp.proj[0])]      # a field of a tuple built from carriers
            elif r.kind == "use" and r.ops[0].kind == "const" and r.ops[0].ty == "bool":
                v = r.ops[0].info.get("v")
                if v is not None:
                    new = B(bool(v))
            elif r.kind == "un" and r.op == "Not" and r.ops[0].kind in ("copy", "move"):
                sp = r.ops[0].place
                if not sp.proj and sp.local in car and car[sp.local].kind == "bool":
                    new = B(not car[sp.local].val)
            elif r.kind == "disc" and not r.place.proj and r.place.local in car \
                    and car[r.place.local].kind == "enum":
                c = car[r.place.local]
                new = Carrier("disc", c.val, c.fam)
            elif r.kind == "disc" and len(r.place.proj) == 1 and (r.place.local, r.place.proj[0]) in car \
                    and car[(r.place.local, r.place.proj[0])].kind == "enum":
                c = car[(r.place.local, r.place.proj[0])]      # a field of a tuple built from carriers
                new = Carrier("disc", c.val, c.fam)
            elif r.kind == "ref" and not r.place.proj and r.place.local in car:
                new = Carrier("ref", car[r.place.local])
            elif r.kind == "ref" and r.place.proj == ("*",) and r.place.local in car \
                    and car[r.place.local].kind == "ref":
                new = car[r.place.local]
            elif r.kind == "agg" and r.agg[0] == "adt":
                res.aggs.append((bb, s))
                base = r.agg[1].rsplit("::", 1)[-1]
                if base in VARIANT_NUM and r.agg[1].startswith("core::"):
                    new = E(base, r.agg[2])
            elif r.kind == "bin" and r.op in ("Eq", "Ne") and \
                    all(o.kind in ("copy", "move", "const") for o in r.ops):
                # bool carrier compared with a constant bool
                a, b_ = r.ops
                if a.kind != "const" and not a.place.proj and a.place.local in car and \
                        car[a.place.local].kind == "bool" and b_.kind == "const" and \
                        b_.info.get("v") is not None:
                    v = car[a.place.local].val == bool(b_.info["v"])
                    new = B(v if r.op == "Eq" else not v)
            if not dst.proj:
                for k in [k for k in car if isinstance(k, tuple) and k[0] == dst.local]:
                    del car[k]
                if r.kind == "agg" and r.agg[0] == "tuple":
                    for i, o in enumerate(r.ops):
                        if o.kind in ("copy", "move") and not o.place.proj and o.place.local in car:
                            car[(dst.local, ".%d" % i)] = car[o.place.local]
                        elif o.kind == "const" and o.ty == "bool" and o.info.get("v") is not None:
                            car[(dst.local, ".%d" % i)] = B(bool(o.info["v"]))
                if new is not None:
                    car[dst.local] = new
                else:
                    car.pop(dst.local, None)
                if dst.local == 0 and track_ret:
                    rv = _retinfo(new, r)
            elif dst.local == 0 and track_ret:
                rv = "unk"
        t = blk.term
        if t.kind == "return":
            res.returns.append((bb, rv))
            continue
        if t.kind == "switch":
            d = t.discr
            c = None
            if d.kind in ("copy", "move") and not d.place.proj:
                c = car.get(d.place.local)
            elif d.kind in ("copy", "move") and len(d.place.proj) == 1:
                c = car.get((d.place.local, d.place.proj[0]))
            if c is not None and c.kind == "bool":
                want = 1 if c.val else 0
                nxt = [tgt for v, tgt in t.arms if v == want]
                if not nxt:
                    nxt = [t.otherwise]
            elif c is not None and c.kind == "disc" and c.fam in VARIANT_NUM:
                nums = {VARIANT_NUM[c.fam][v] for v in c.val}
                nxt = [tgt for v, tgt in t.arms if v in nums]
                if any(n not in [v for v, _ in t.arms] for n in nums):
                    nxt.append(t.otherwise)
            else:
                dk = None
                if d.kind in ("copy", "move") and not d.place.proj:
                    dk = _disc_key(body, du, bb, d.place.local)
                if dk is not None:
                    known = dict(fk)
                    if dk in known:
                        allowed = known[dk]
                        nxt2 = [(tgt, fk) for v, tgt in t.arms if v in allowed]
                        if any(v not in [a for a, _ in t.arms] for v in allowed):
                            nxt2.append((t.otherwise, fk))
                    else:
                        nxt2 = []
                        for v, tgt in t.arms:
                            k2 = dict(known)
                            k2[dk] = frozenset({v})
                            nxt2.append((tgt, tuple(sorted(k2.items()))))
                        nxt2.append((t.otherwise, fk))
                    for s_, f2 in nxt2:
                        work.append((s_, car, rv, f2))
                    continue
                nxt = t.succs()
            for s_ in nxt:
                work.append((s_, car, rv, fk))
            continue
        if t.kind in ("call", "tailcall"):
            res.calls.append((bb, t))
            if stop_at is not None and stop_at(bb, t):
                continue
            ce = t.callee
            name = ce.target_p() if ce.indirect is None else ""
            argc = []
            for a in t.args:
                if a.kind in ("copy", "move") and not a.place.proj and a.place.local in car:
                    argc.append(car[a.place.local])
                else:
                    argc.append(None)
            new = None
            a0 = argc[0] if argc else None
            if a0 is not None and a0.kind == "enum" and a0.val <= frozenset({"Err", "None"}) and \
                    re.search(r"core::(option::Option::<T>|result::Result::<T, E>)::(unwrap|expect)$", name):
                continue      # unwrap/expect of a failure diverges (panic), nothing follows
            if a0 is not None and a0.kind == "enum":
                if name.endswith(TRY_BRANCH):
                    m = {"Ok": "Continue", "Some": "Continue", "Err": "Break", "None": "Break"}
                    new = E("ControlFlow", *[m[v] for v in a0.val])
                elif KEEP_ERR.search(name) and a0.fam == "Result":
                    new = a0 if a0.val == frozenset({"Err"}) else None
                    # map / map_err / inspect* keep the variant either way; and_then only keeps a failure
                    if re.search(r"::(map_err|map|inspect|inspect_err)$", name):
                        new = a0
                elif KEEP_OPT.search(name) and a0.fam == "Option":
                    new = a0 if a0.val == frozenset({"None"}) else None
                    if re.search(r"::(map|inspect|copied|cloned|as_ref)$", name):
                        new = a0
                elif OK_OR.search(name) and a0.fam == "Option":
                    m = {"Some": "Ok", "None": "Err"}
                    new = E("Result", *[m[v] for v in a0.val])
                elif name == RES_OK and a0.fam == "Result":
                    m = {"Ok": "Some", "Err": "None"}
                    new = E("Option", *[m[v] for v in a0.val])
                elif "core::ops::FromResidual" in name:
                    new = None
            elif a0 is not None and a0.kind == "ref" and a0.val.kind == "enum":
                e = a0.val
                tests = {"is_ok": "Ok", "is_err": "Err", "is_some": "Some", "is_none": "None"}
                for meth, vn in tests.items():
                    if name.endswith("::" + meth):
                        if e.val == frozenset({vn}):
                            new = B(True)
                        elif vn not in e.val:
                            new = B(False)
            if "core::ops::FromResidual" in name and name.endswith("::from_residual"):
                fam = "Result" if "core::result::Result" in name.split(" as ")[0] else "Option"
                new = E(fam, "Err" if fam == "Result" else "None")
            if call_results and bb in call_results:
                new = call_results[bb]          # the caller assumes this call's outcome
            for a in t.args:
                if a.kind == "move" and not a.place.proj:
                    car.pop(a.place.local, None)
            if t.kind == "tailcall":
                res.returns.append((bb, "unk"))
                continue
            if t.dest is not None and not t.dest.proj:
                if new is not None:
                    car[t.dest.local] = new
                else:
                    car.pop(t.dest.local, None)
                if t.dest.local == 0 and track_ret:
                    rv = _retinfo(new, None)
            elif t.dest is not None and t.dest.local == 0 and track_ret:
                rv = "unk"
            if t.target is not None:
                work.append((t.target, car, rv, fk))
            continue
        for s_ in t.succs():
            work.append((s_, car, rv, fk))
    return res


def _retinfo(c, rvalue):
    """what is known about a value written to the return place"""
    if c is not None and c.kind == "enum":
        return "variant:" + "|".join(sorted(c.val))
    if c is not None and c.kind == "bool":
        return "bool:%s" % c.val
    if rvalue is not None and rvalue.kind == "use" and rvalue.ops[0].kind == "const":
        v = rvalue.ops[0].info.get("v")
        if v is not None:
            return "const:%s" % v
    return "unk"


def after_call(body, bb, carrier, **kw):
    """explore from the return edge of the call terminating block bb, assuming its result"""
    t = body.blocks[bb].term
    if t.target is None or t.dest is None or t.dest.proj:
        return None
    return explore(body, t.target, {t.dest.local: carrier}, **kw)


def find_calls(body, pattern):
    rx = re.compile(pattern)
    return [(bb, t) for bb, t in body.calls()
            if t.callee.indirect is None and rx.search(t.callee.target_p())]
