"""vc (E4) — validated-constructor discipline and rejection liveness.

VC-1 who-may-construct: every aggregate of a validated type lies in its listed constructors
     (derive expansions excepted) and its fields are not public.
VC-2 rejection liveness: each listed rejection variant is constructed at >= 1 site in the
     constructor (or the closures it owns).
VC-3 guard dominance: for every rejection site of the constructor's own body, the branch that
     decides it dominates the success construction (or lies in a loop whose header does), so the
     success path cannot bypass the check.
VC decides that the rejection rules exist, are reachable and cannot be bypassed; it does not
decide that their CONDITIONS are the right ones.
"""
import re

import sqlfx


def is_test(f):
    return "::tests::" in f.p or "::testing" in f.p or f.span.file.endswith("/tests.rs") or \
        f.span.file.endswith("/testing.rs") or "/testing/" in f.span.file


def aggregates(w, adt, variant=None):
    out = []
    for f in w.fns.values():
        for bi, blk in enumerate(f.body.blocks):
            if blk.cleanup:
                continue
            for s in blk.stmts:
                if s.kind == "=" and s.rv.kind == "agg" and s.rv.agg[0] == "adt" and s.rv.agg[1] == adt:
                    if variant is None or s.rv.agg[2] == variant:
                        out.append((f, bi, s))
    return out


def vc1(chk, rule, w, adt, allowed_rx, reason=""):
    info = w.adts.get(adt)
    if not info:
        chk.fail(rule, "vc1/%s/missing" % adt, "type %s not found" % adt)
        return
    if info["kind"] == "Struct":
        pub = [f["name"] for f in info["variants"][0]["fields"] if f["vis"] == "pub"]
        if pub:
            chk.fail(rule, "vc1/%s/pub-field" % adt, "field(s) %s of %s are public: the type can be "
                     "built or altered without validation" % (pub, adt))
        else:
            chk.ok(rule, "%s has no public field" % adt)
    n = 0
    for f, _bi, s in aggregates(w, adt):
        if is_test(f) or f.derived:
            continue
        n += 1
        if re.search(allowed_rx, f.p):
            chk.ok(rule, "%s constructed in %s" % (adt.rsplit("::", 1)[-1], f.p.rsplit("::", 2)[-1]))
        else:
            chk.fail(rule, "vc1/%s/%s" % (adt, f.p), "%s is constructed in %s, outside its validating "
                     "constructor(s)%s" % (adt, f.p, (" (" + reason + ")") if reason else ""),
                     s.span.loc())
    if n == 0:
        chk.fail(rule, "vc1/%s/no-site" % adt, "no construction site of %s found" % adt)


def owned(w, f):
    """f and the closures it (transitively) owns"""
    out = [f]
    for g in w.fns.values():
        if g.is_closure() and g.root == f.id:
            out.append(g)
    return out


def rejection_sites(w, f, err_adt):
    """variant -> [(fn, bb, stmt)] for aggregates of err_adt in f and its closures"""
    out = {}
    for g in owned(w, f):
        for bi, blk in enumerate(g.body.blocks):
            if blk.cleanup:
                continue
            for s in blk.stmts:
                if s.kind == "=" and s.rv.kind == "agg" and s.rv.agg[0] == "adt" and s.rv.agg[1] == err_adt:
                    out.setdefault(s.rv.agg[2], []).append((g, bi, s))
    return out


def vc2(chk, rule, w, f, err_adt, variants):
    sites = rejection_sites(w, f, err_adt)
    for v in variants:
        if sites.get(v):
            chk.ok(rule, "%s: rejection %s is produced at %d site(s)"
                   % (f.p.rsplit("::", 1)[-1], v, len(sites[v])))
        else:
            chk.fail(rule, "vc2/%s/%s" % (f.p, v), "%s no longer produces %s::%s: the validity rule it "
                     "reports has been dropped" % (f.p, err_adt.rsplit("::", 1)[-1], v), f.span.loc())
    return sites


def controlling_switch(body, bb):
    """the closest switch block that dominates bb and of which bb is not a common successor
    (i.e. bb is control dependent on it)"""
    dom = body.dominators().get(bb, set())
    best = None
    for sb in dom:
        if sb == bb or body.blocks[sb].term.kind != "switch":
            continue
        # bb must not post-dominate sb (otherwise sb does not control it)
        if body.postdominates(bb, sb):
            continue
        if best is None or body.dominates(best, sb):
            best = sb
    return best


def vc3(chk, rule, w, f, err_adt, success_blocks, skip_variants=()):
    """every rejection site in f's own body is decided by a branch that dominates all success
    sites (or sits in a loop whose header dominates them)"""
    body = f.body
    cyc = sqlfx.cyclic_blocks(body)
    n = 0
    ordn = {}
    for bi, blk in enumerate(body.blocks):
        if blk.cleanup:
            continue
        for s in blk.stmts:
            if not (s.kind == "=" and s.rv.kind == "agg" and s.rv.agg[0] == "adt" and s.rv.agg[1] == err_adt):
                continue
            v = s.rv.agg[2]
            if v in skip_variants:
                continue
            ordn[v] = ordn.get(v, 0) + 1
            key = "vc3/%s/%s#%d" % (f.p, v, ordn[v])
            sb = controlling_switch(body, bi)
            n += 1
            if sb is None:
                # unconditional rejection on this path (e.g. inside a match arm reached by `?`)
                chk.ok(rule, "%s: %s is produced unconditionally on its path" % (f.p.rsplit("::", 1)[-1], v))
                continue
            okk = all(body.dominates(sb, sx) for sx in success_blocks)
            # a check that is itself conditional (e.g. only after an upgrade is active): climb to
            # the branch that controls the check until one dominates the success construction
            hops = 0
            cur = sb
            while not okk and cur is not None and hops < 12 and cur not in cyc:
                cur = controlling_switch(body, cur)
                hops += 1
                if cur is not None and all(body.dominates(cur, sx) for sx in success_blocks):
                    okk = True
            if not okk and sb in cyc:
                # a loop over the input items: some block of the same loop dominates success
                loop = {b for b in cyc if b in body.reachable(sb) and sb in body.reachable(b)}
                okk = any(all(body.dominates(h, sx) for sx in success_blocks) for h in loop)
            if okk:
                chk.ok(rule, "%s: the test deciding %s dominates the success construction [%s]"
                       % (f.p.rsplit("::", 1)[-1], v, s.span.loc()))
            else:
                chk.fail(rule, key, "the success construction of %s is reachable without passing the test "
                         "that produces %s: the check can be bypassed" % (f.p.rsplit("::", 1)[-1], v),
                         s.span.loc())
    # the success construction comes after every check: no rejection site is reachable from it
    rej_blocks = {bi for bi, blk in enumerate(body.blocks) for s in blk.stmts
                  if s.kind == "=" and s.rv.kind == "agg" and s.rv.agg[0] == "adt" and s.rv.agg[1] == err_adt}
    for sx in success_blocks:
        reach = body.reachable(sx)
        late = sorted(b for b in rej_blocks if b in reach and b != sx)
        if late:
            chk.fail(rule, "vc3/%s/check-after-success" % f.p, "a rejection is decided after the success "
                     "value has been constructed", f.span.loc())
        else:
            chk.ok(rule, "%s: nothing is checked after the success construction" % f.p.rsplit("::", 1)[-1])
    return n
