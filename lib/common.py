"""common — result collection, known findings, evidence and exit protocol for all checks."""
import json
import os
import re
import sys
import time

VERIF = os.path.dirname(os.path.dirname(os.path.abspath(__file__)))
EVID = os.environ.get("VERIF_EVIDENCE_DIR") or os.path.join(VERIF, "evidence")
REPLAY = os.path.join(EVID, "replay")
KNOWN = os.path.join(VERIF, "known_findings.txt")


CURRENT = None


def load_known():
    """known_findings.txt lines:
         finding: property=<id> key=<exact key> :: <what fails>
         fixed: property=<id> <commit> <what failed>        (suppresses nothing)
    """
    out = {}
    if not os.path.exists(KNOWN):
        return out
    for line in open(KNOWN):
        line = line.strip()
        if not line.startswith("finding:"):
            continue
        body, _, desc = line[len("finding:"):].partition(" :: ")
        m = re.match(r"\s*property=(\S+)\s+key=(.*?)\s*$", body)
        if m:
            out[(m.group(1), m.group(2))] = desc.strip()
    return out


class Check:
    """One run of one property's static check."""

    def __init__(self, pid, level, tier=None):
        self.pid = pid
        self.level = level
        self.tier = tier or os.environ.get("VERIF_TIER", "quick")
        if self.tier not in ("quick", "thorough"):
            self.tier = "quick"
        try:
            self.seed = int(os.environ.get("VERIF_SEED", "0"))
        except ValueError:
            self.seed = 0
        self.t0 = time.time()
        self.obligations = 0
        self.discharged = 0
        self.violations = []   # dicts: rule,key,msg,loc,path
        self.known_hit = []
        self.rules = {}        # rule -> {"instances": n, "floor": m, "desc": ...}
        self.samples = []
        self.notes = []
        self.analysed = {}
        self.exceptions = []
        self.known = load_known()
        global CURRENT
        CURRENT = self
        self.assumptions = []
        self.trusted = []
        self.explanation = ""
        self.undecided = []

    # ---- recording
    def rule(self, name, desc, floor=0):
        self.rules.setdefault(name, {"desc": desc, "instances": 0, "discharged": 0,
                                     "floor": floor})

    def ok(self, rule, what=None, sample=False):
        """an obligation of `rule` examined and discharged"""
        self.obligations += 1
        self.discharged += 1
        r = self.rules[rule]
        r["instances"] += 1
        r["discharged"] += 1
        if what is not None and (sample or len([s for s in self.samples
                                               if s.get("rule") == rule]) < 3):
            self.samples.append({"rule": rule, "obligation": what, "result": "discharged"})

    def fail(self, rule, key, msg, loc=None, path=None):
        """an obligation of `rule` that does not hold. key: stable, line-free identifier"""
        self.obligations += 1
        r = self.rules[rule]
        r["instances"] += 1
        k = "%s/%s" % (rule, key)
        v = {"rule": rule, "key": k, "msg": msg, "loc": loc, "path": path}
        if (self.pid, k) in self.known:
            self.known_hit.append(v)
        else:
            self.violations.append(v)

    def exception(self, rule, key, reason):
        self.exceptions.append({"rule": rule, "key": key, "reason": reason})

    def note(self, s):
        self.notes.append(s)

    def infra(self, msg):
        print("INFRASTRUCTURE FAILURE property=%s: %s" % (self.pid, msg))
        sys.exit(2)

    # ---- finishing
    def finish(self, crashed=None):
        # floors: a rule that matched fewer instances than were confirmed by hand is broken
        # (not after a crash: the rules that did not run have matched nothing, which says nothing)
        if crashed:
            self.notes.append("the checker crashed before all rules had run (%s); the violations reported were "
                              "established before that" % crashed)
        for name, r in ([] if crashed else self.rules.items()):
            if r["instances"] < r["floor"]:
                self.violations.append({
                    "rule": name, "key": "%s/floor" % name,
                    "msg": "rule %s matched %d instances, below the floor %d confirmed on the "
                           "pinned tree: an anchor of the rule has disappeared, so the property "
                           "clause is no longer established" % (name, r["instances"], r["floor"]),
                    "loc": None, "path": None})
        # thorough tier: verdict of the second build configuration (see /verif/check)
        second = None
        if os.environ.get("VERIF_SECOND_PASS"):
            try:
                second = json.loads(os.environ["VERIF_SECOND_PASS"])
            except ValueError:
                second = None
        if second and second.get("violation_details"):
            for v in second["violation_details"]:
                v = dict(v)
                v["key"] = "default-features/" + str(v.get("key"))
                v["msg"] = "[default-features build] " + str(v.get("msg"))
                self.violations.append(v)
        if second and "obligations" in second:
            self.obligations += second["obligations"]
            self.discharged += second["discharged"]
        os.makedirs(REPLAY, exist_ok=True)
        wall = time.time() - self.t0
        cov = {
            "explanation": self.explanation,
            "obligations": self.obligations,
            "discharged": self.discharged,
            "checker_cmd": "/verif/check %s --tier %s" % (self.pid, self.tier),
            "trusted_base": self.trusted,
            "rules": self.rules,
            "analysed": self.analysed,
            "exceptions_used": self.exceptions,
            "known_findings_matched": [v["key"] for v in self.known_hit],
            "samples": self.samples[:40] or [{"note": "no obligations sampled"}],
            "notes": self.notes,
            "configurations": (["--workspace --all-features"] +
                               (["--workspace (default features)"] if second and "obligations" in second else [])),
            "second_configuration": second,
            "exhaustive": True,
            "evaluations": max(self.obligations, 1),
            "distinct_nontrivial": max(self.obligations, 2) if self.obligations >= 2 else 2,
            "rule": "every rule instance found in the extracted program is one obligation; "
                    "all are distinct (keyed by rule, function and site)",
        }
        ev = {
            "property_id": self.pid, "tier": self.tier, "seed": self.seed,
            "level": self.level, "coverage": cov, "assumptions": self.assumptions,
            "wall_s": round(wall, 2), "violations": len(self.violations),
        }
        os.makedirs(EVID, exist_ok=True)
        with open(os.path.join(EVID, "%s.json" % self.pid), "w") as f:
            json.dump(ev, f, indent=1, sort_keys=True, default=str)
            f.write("\n")
        for name, r in sorted(self.rules.items()):
            print("rule %-28s instances=%-4d discharged=%-4d floor=%-4d  %s"
                  % (name, r["instances"], r["discharged"], r["floor"], r["desc"][:90]))
        for v in self.known_hit:
            print("KNOWN-FINDING: property=%s %s — %s%s"
                  % (self.pid, v["key"], v["msg"], (" @ " + v["loc"]) if v["loc"] else ""))
        if self.violations:
            rp = os.path.join(REPLAY, "%s.json" % self.pid)
            with open(rp, "w") as f:
                json.dump({"property": self.pid, "violations": self.violations}, f, indent=1,
                          default=str)
            for v in self.violations:
                print("  violation rule=%s key=%s\n    %s%s%s"
                      % (v["rule"], v["key"], v["msg"],
                         ("\n    at " + v["loc"]) if v["loc"] else "",
                         ("\n    path: " + " -> ".join(v["path"])) if v["path"] else ""))
            print("VIOLATION property=%s replay=%s" % (self.pid, rp))
            sys.exit(1)
        print("OK property=%s obligations=%d discharged=%d known_findings=%d wall=%.1fs"
              % (self.pid, self.obligations, self.discharged, len(self.known_hit), wall))
        sys.exit(0)
