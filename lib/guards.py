"""guards — edge conditions that must have held when a block runs.

edge_conditions(body, bb): the switch edges (sw -> tb) such that sw dominates bb, tb dominates bb (or
is bb) and tb can only be entered through that edge (other predecessors lie inside the region tb
dominates, i.e. are loop back edges). Every path to bb takes each such edge, so the switch's operand
had the edge's value the last time it was evaluated before bb — including for the single exit of an
endless loop, which post-dominates everything and has no "controlling" switch in the usual sense.

stable(...) adds what a rule needs to carry a condition on locals over to bb: none of the locals is
assigned on the way from tb to bb.
"""


def _preds(body):
    p = getattr(body, "_g_preds", None)
    if p is None:
        p = {}
        for bi, blk in enumerate(body.blocks):
            if blk.cleanup:
                continue
            for x in blk.term.succs():
                p.setdefault(x, set()).add(bi)
        body._g_preds = p
    return p


def edge_conditions(body, bb):
    out = []
    dom = body.dominators().get(bb, set()) | {bb}
    preds = _preds(body)
    for sw in dom:
        t = body.blocks[sw].term
        if t.kind != "switch" or sw == bb:
            continue
        arms = list(t.arms) + [("else", t.otherwise)]
        tgts = [tb for _v, tb in arms if tb is not None]
        for v, tb in arms:
            if tb is None or tgts.count(tb) != 1:
                continue
            if not (tb == bb or body.dominates(tb, bb)):
                continue
            if all(p == sw or body.dominates(tb, p) for p in preds.get(tb, ())):
                out.append((sw, v, tb))
    return out


def truth(term, v):
    """True / False / None: the boolean the switch operand had on the edge with value v"""
    vals = [a for a, _t in term.arms]
    if v == "else":
        return True if vals == [0] else (False if vals == [1] else None)
    return bool(v) if v in (0, 1) else None


def between(body, sw, tb, bb):
    """blocks on paths tb -> bb that do not pass through sw again"""
    fwd, work = set(), [tb]
    while work:
        x = work.pop()
        if x in fwd or x == sw:
            continue
        fwd.add(x)
        if x != bb:
            work.extend(body.blocks[x].term.succs())
    preds = _preds(body)
    back, work = set(), [bb]
    while work:
        x = work.pop()
        if x in back or x == sw or x not in fwd:
            continue
        back.add(x)
        work.extend(preds.get(x, ()))
    return back


def stable(body, du, locals_, sw, tb, bb):
    region = between(body, sw, tb, bb)
    for l in locals_:
        for kind, db, x in du.defs.get(l, []):
            if db in region and not (db == bb and kind == "call"):
                # a definition in bb's own terminator comes after bb's statements
                return False
    return True


def loopfree_paths(b, limit=2000):
    """all paths entry -> return of a loop-free body as ([(switch block, value taken)], blocks visited);
    raises ValueError on a cycle or too many paths. Arms leading straight to `unreachable` are skipped."""
    out = []

    def go(bi, taken, seen):
        if len(out) > limit or bi in seen:
            raise ValueError("loop or too many paths")
        t = b.blocks[bi].term
        seen = seen | {bi}
        if t.kind == "return":
            out.append((taken, seen))
            return
        if t.kind == "switch":
            for v, tb in list(t.arms) + [("else", t.otherwise)]:
                if tb is None or b.blocks[tb].term.kind == "unreachable":
                    continue
                go(tb, taken + [(bi, v)], seen)
            return
        nxt = t.target if t.kind in ("goto", "call", "drop", "assert") else None
        if nxt is not None:
            go(nxt, taken, seen)
    go(0, [], frozenset())
    return out


def facts(body, du, bb, depth=0):
    """[(origin of a tested condition, truth)] that held on every path to bb: the edge conditions, and - when a
    tested boolean is a join such as `let ok = a && b;` (definitions: `false`/`true` constants and one computed
    value) - the computed definition and the conditions under which it was evaluated"""
    out = []
    if depth > 4:
        return out
    for sw, v, _tb in edge_conditions(body, bb):
        tm = body.blocks[sw].term
        tr = truth(tm, v)
        if tm.discr is None or tm.discr.kind not in ("copy", "move"):
            continue
        o = du.origin(tm.discr)
        out.append((o, tr))
        if tr is None or o[0] != "local":
            continue
        defs = du.defs.get(o[1], [])
        live = []
        for kind, db, x in defs:
            if kind == "stmt" and x.rv.kind == "use" and x.rv.ops[0].kind == "const" and \
                    x.rv.ops[0].info.get("v") in (0, 1):
                if bool(x.rv.ops[0].info["v"]) == tr:
                    live.append((kind, db, x))       # a constant definition with the observed value
                continue
            live.append((kind, db, x))
        if len(live) == 1 and not (live[0][0] == "stmt" and live[0][2].rv.kind == "use" and
                                    live[0][2].rv.ops[0].kind == "const"):
            kind, db, x = live[0]
            if kind == "stmt" and x.rv.kind == "bin":
                out.append((("bin", x.rv.op, du.origin(x.rv.ops[0]), du.origin(x.rv.ops[1])), tr))
            elif kind == "stmt" and x.rv.kind == "use":
                out.append((du.origin(x.rv.ops[0]), tr))
            elif kind == "call":
                nm = x.callee.target_p() if x.callee.indirect is None else "<indirect>"
                out.append((("call", nm, [du.origin(a) for a in x.args]), tr))
            out += facts(body, du, db, depth + 1)
    return out
