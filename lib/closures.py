"""closures — origin trees across closure boundaries.

defuse.origin() stops at a call of a closure. These helpers rewrite the origin of a closure body's
result in its creator's terms (captured values and parameters substituted), so that a rule sees the
same expression whether a computation is written inline, as a closure handed to a combinator, or as
a closure called directly.
"""
import defuse


def norm(o):
    """origin with reference layers and Deref::deref calls removed"""
    if not isinstance(o, tuple):
        return o
    if o[0] in ("ref", "deref"):
        return norm(o[1])
    if o[0] == "call" and o[1].endswith("::deref") and len(o[2]) == 1:
        return norm(o[2][0])
    return tuple(norm(x) if isinstance(x, tuple) else ([norm(y) for y in x] if isinstance(x, list) else x)
                 for x in o)


def subst(o, caps, params):
    """an origin computed inside a closure body, rewritten in its creator's terms: `_1.k` is the
    k-th captured value, `_2..` the parameters"""
    if not isinstance(o, tuple):
        return o
    if o[0] == "field" and o[2][1:].isdigit() and \
            (o[1] in (("local", 1), ("arg", 0)) or
             (o[1][0] == "deref" and o[1][1] in (("local", 1), ("arg", 0)))):     # Fn / FnMut: the environment is behind a reference
        k = int(o[2][1:])
        return caps[k] if k < len(caps) else ("unknown",)
    if o[0] in ("local", "arg"):
        n = o[1] if o[0] == "local" else o[1] + 1
        if n >= 2 and n - 2 < len(params):
            return params[n - 2]
        return ("unknown",)
    return tuple(subst(x, caps, params) if isinstance(x, tuple) else
                 ([subst(y, caps, params) for y in x] if isinstance(x, list) else x) for x in o)


def deep(defuse=defuse):
    class Deep(defuse.DefUse):
        MAXD = 80
    return Deep


def closure_result(w, agg, params):
    """the value a closure returns, in its creator's terms (single-block-result closures only)"""
    if not (isinstance(agg, tuple) and agg[0] == "agg" and agg[1].startswith("closure:")):
        return None
    f = w.fns.get(agg[1][len("closure:"):]) or next((g for g in w.fns.values() if g.id == agg[1][8:]), None)
    if f is None or f.body is None:
        return None
    du = deep()(f.body)
    return subst(du.origin_local(0), agg[2], params)


def inline(w, o):
    """origin with calls of locally created closures replaced by the closure's result"""
    if not isinstance(o, tuple):
        return o
    if o[0] == "call" and len(o[2]) == 2 and isinstance(o[2][0], tuple) and o[2][0][0] == "agg" and \
            o[2][0][1].startswith("closure:") and o[2][1][0] == "agg" and o[2][1][1] == "tuple":
        r = closure_result(w, o[2][0], [inline(w, x) for x in o[2][1][2]])
        if r is not None:
            return norm(r)
    return tuple(inline(w, x) if isinstance(x, tuple) else
                 ([inline(w, y) for y in x] if isinstance(x, list) else x) for x in o)




def inline_fns(w, o, crate=None, depth=0):
    """origin with calls of small workspace functions replaced by their result: a function qualifies when
    its result has a single-definition origin over its parameters alone (no joins, no locals), e.g. a
    nested `fn ceildiv(num, den) -> usize { num.div_ceil(den) }`. Closure calls are inlined as well."""
    if not isinstance(o, tuple) or depth > 6:
        return o
    o = inline(w, o)
    if o[0] == "call" and not o[1].startswith("core::") and not o[1].startswith("<core::"):
        fs = [g for g in w.fns.values() if g.p == o[1] and g.body is not None and not g.is_closure() and
              (crate is None or g.crate.name == crate)]
        if len(fs) == 1 and len(fs[0].body.blocks) <= 6:
            r = norm(deep()(fs[0].body).origin_local(0))

            def only_args(x):
                if not isinstance(x, tuple):
                    return True
                if x[0] in ("local", "unknown"):
                    return False
                return all(only_args(y) if isinstance(y, tuple) else
                           (all(only_args(z) for z in y) if isinstance(y, list) else True) for y in x[1:])
            if only_args(r):
                args = [inline_fns(w, a, crate, depth + 1) for a in o[2]]

                def sub(x):
                    if not isinstance(x, tuple):
                        return x
                    if x[0] == "arg":
                        return args[x[1]] if x[1] < len(args) else ("unknown",)
                    return tuple(sub(y) if isinstance(y, tuple) else ([sub(z) for z in y] if isinstance(y, list) else y)
                                 for y in x)
                return norm(sub(r))
    return tuple(inline_fns(w, x, crate, depth + 1) if isinstance(x, tuple) else
                 ([inline_fns(w, y, crate, depth + 1) for y in x] if isinstance(x, list) else x) for x in o)
