"""panics (E3) — panic-site inventory and reachability from untrusted-input entry points.

A site is a MIR construct that can panic at run time.  Class A sites panic in every build
profile (explicit panics/asserts, unwrap/expect, index and slice bounds, length-checked slice
calls, division by zero).  Class B sites are the arithmetic-overflow asserts rustc adds in debug
builds only; they are inventoried and armed only where an analysis discharges them.
Each reachable class A site must be discharged automatically or by a reviewed entry
(rules/pf_reviewed.py) — otherwise it is a violation.
"""
import re

PANIC_FNS = re.compile(
    r"^core::panicking::|^core::option::(unwrap_failed|expect_failed)$|"
    r"^core::result::unwrap_failed$|^core::slice::index::slice_\w+_fail|"
    r"^core::str::slice_error_fail|^core::rt::begin_panic|^core::rt::panic_|"
    r"^core::cell::panic_already|^core::alloc::handle_alloc_error")
UNWRAP = re.compile(r"^core::(option::Option::<T>|result::Result::<T, E>)::"
                    r"(unwrap|expect|unwrap_err|expect_err|unwrap_unchecked)$")
INDEX_CALL = re.compile(r"core::ops::Index(Mut)?::index(_mut)?$")
LEN_PANICKY = re.compile(
    r"::(copy_from_slice|clone_from_slice|split_at|split_at_mut|swap_remove|split_off|"
    r"chunks|chunks_exact|chunks_mut|chunks_exact_mut|windows|rchunks|step_by|from_slice|"
    r"from_mut_slice|copy_within|rotate_left|rotate_right|swap_with_slice|split_first_chunk)$|"
    r"^core::vec::Vec::<T, A>::(remove|insert|drain|swap_remove|split_off)$|"
    r"^core::cell::RefCell::<T>::(borrow|borrow_mut)$|"
    r"^core::collections::\w+::\w+::<.*>::(remove|insert|swap)$")

# macro contexts that are not the code's own panics
FOREIGN_MACROS = ("tracing::", "instrument", "proptest", "prop_compose", "prop_oneof")


def macro_kind(span):
    for m in span.macros:
        if m in ("assert", "assert_eq", "assert_ne", "unreachable", "panic", "unimplemented",
                 "todo", "debug_assert", "debug_assert_eq", "debug_assert_ne"):
            return m
    return None


def sites_of(fn):
    """list of dict(kind, cls, detail, bb, span, term)"""
    out = []
    body = fn.body
    for bb, blk in enumerate(body.blocks):
        if blk.cleanup:
            continue
        t = blk.term
        if t.kind == "assert":
            k = t.msg[0]
            if k == "BoundsCheck":
                out.append(dict(kind="bounds", cls="A", detail="index", bb=bb, span=t.span, term=t))
            elif k in ("DivisionByZero", "RemainderByZero"):
                out.append(dict(kind="divzero", cls="A", detail=k, bb=bb, span=t.span, term=t))
            elif k in ("Overflow", "OverflowNeg"):
                d = k + (":" + t.msg[1] if k == "Overflow" else "")
                out.append(dict(kind="overflow", cls="B", detail=d, bb=bb, span=t.span, term=t))
            else:
                out.append(dict(kind="assert-other", cls="B", detail=k, bb=bb, span=t.span, term=t))
        elif t.kind in ("call", "tailcall") and t.callee.indirect is None:
            p = t.callee.target_p()
            mk = macro_kind(t.span)
            if PANIC_FNS.search(p):
                if any(any(m.startswith(fm) or m == fm for fm in FOREIGN_MACROS)
                       for m in t.span.macros):
                    continue
                if mk and mk.startswith("debug_assert"):
                    out.append(dict(kind="debug_assert", cls="B", detail=mk, bb=bb, span=t.span, term=t))
                else:
                    out.append(dict(kind="panic", cls="A", detail=(mk or p.rsplit("::", 1)[-1]),
                                    bb=bb, span=t.span, term=t))
            elif UNWRAP.search(p):
                out.append(dict(kind="unwrap", cls="A", detail=p.rsplit("::", 1)[-1] + ":" +
                                ("Option" if "option" in p else "Result"),
                                bb=bb, span=t.span, term=t))
            elif INDEX_CALL.search(t.callee.p or ""):
                rp = t.callee.rp or p
                # indexing into maps / slices / vecs / strs by range or key
                out.append(dict(kind="index-call", cls="A", detail=_short(rp), bb=bb,
                                span=t.span, term=t))
            elif LEN_PANICKY.search(p):
                out.append(dict(kind="len-call", cls="A", detail=p.rsplit("::", 1)[-1], bb=bb,
                                span=t.span, term=t))
    return out


def _short(p):
    m = re.search(r"impl core::ops::Index(?:Mut)?<(.*?)> for (.*?)>::index", p)
    if m:
        return "%s[%s]" % (m.group(2), m.group(1))
    return p.rsplit("::", 2)[-2] if "::" in p else p


INFALLIBLE_SINK_TY = re.compile(
    r"^(&mut )?(core::vec::Vec<u8>|blake2b_simd::State|blake2s_simd::State|"
    r"zcash_primitives::transaction::util::sha256d::HashWriter|sha2::\w+|"
    r"core::io::Sink|zcash_\w+::\w*::?StateWrite|.*StateWrite.*|.*HashWriter.*|"
    r"core::string::String)$")
WRITE_TRAITS = ("core::io::Write", "corez::io::Write", "byteorder::WriteBytesExt",
                "core::fmt::Write", "zcash_protocol::std::io::Write")


def auto_discharge(fn, site):
    """returns a reason string if the site is discharged automatically, else None"""
    body = fn.body
    t = site["term"]
    if site["kind"] == "bounds":
        ln, ix = t.msg[1], t.msg[2]
        lv = ln.info.get("v") if ln.kind == "const" else None
        iv = ix.info.get("v") if ix.kind == "const" else None
        if lv is not None and iv is not None and 0 <= iv < lv:
            return "constant index %d into fixed array of %d" % (iv, lv)
        return None
    if site["kind"] == "divzero":
        # assert(!(divisor == 0)): discharge when the divisor is a non-zero constant
        c = t.cond
        if c.kind in ("copy", "move") and not c.place.proj:
            for s in body.blocks[site["bb"]].stmts:
                if s.kind == "=" and not s.place.proj and s.place.local == c.place.local \
                        and s.rv.kind == "bin" and s.rv.op == "Eq":
                    a, b = s.rv.ops
                    if a.kind == "const" and b.kind == "const" and a.info.get("v") not in (None, 0) \
                            and b.info.get("v") == 0:
                        return "division by the non-zero constant %s" % a.info["v"]
        return None
    if site["kind"] == "unwrap" and t.args:
        a = t.args[0]
        if a.kind in ("copy", "move") and not a.place.proj:
            src = _def_call(body, a.place.local)
            if src is not None:
                ce = src.callee
                if ce.indirect is None and ce.trait in WRITE_TRAITS and ce.self_ty and \
                        INFALLIBLE_SINK_TY.search(ce.self_ty):
                    return "write to an infallible sink (%s)" % ce.self_ty
                rp = ce.target_p()
                if "impl core::io::Write for core::vec::Vec<u8" in rp:
                    return "write to Vec<u8> cannot fail"
    return None


def _def_call(body, local):
    """the unique call terminator whose destination is `local` (None if not unique)"""
    found = None
    for bb, t in body.calls():
        if t.dest is not None and not t.dest.proj and t.dest.local == local:
            if found is not None:
                return None
            found = t
    if found is None:
        return None
    for blk in body.blocks:
        for s in blk.stmts:
            if s.kind == "=" and not s.place.proj and s.place.local == local:
                return None
    return found


def reachable_sites(world, entries, in_scope=lambda f: True):
    """entries: list of Fn. returns (list of (fn, site, key), parent map, reached fns)"""
    roots = [f.id for f in entries]
    reached, parent = world.reach(roots, stop=lambda fid: not in_scope(world.fns[fid]))
    out = []
    for fid in sorted(reached):
        f = world.fns[fid]
        if not in_scope(f):
            continue
        ss = sites_of(f)
        ss.sort(key=lambda s: (s["span"].line, s["span"].col, s["bb"]))
        ordn = {}
        for s in ss:
            k0 = (s["kind"], s["detail"])
            ordn[k0] = ordn.get(k0, 0) + 1
            key = "%s/%s:%s#%d" % (f.p, s["kind"], s["detail"], ordn[k0])
            out.append((f, s, key))
    return out, parent, reached
