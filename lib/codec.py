"""codec (E8) — wire-operation sequences of flat writer/reader pairs, from MIR.

For straight-line (or single-match) codecs the order of wire operations in the source is the
order on the wire.  From a writer we extract, in source order, what is written for which field
and how; from the reader, what is read into which field and how; the two sequences must be equal
as sequences of (field, encoding).  Encodings: raw:<type>, int:<le|be>:<type>, u256:le,
cs:<bounded|unbounded>, nested:<Type>, tag.  Branching codecs are out of scope.
"""
import re

import defuse

WRITE_ALL = re.compile(r"io::Write::write_all$|::write_all$")
READ_EXACT = re.compile(r"io::Read::read_exact$|::read_exact$")
CS_W = re.compile(r"CompactSize::(write_unbounded|write)$")
CS_R = re.compile(r"CompactSize::(read_unbounded|read|read_t)(::<.*>)?$")
INT_TO = re.compile(r"core::num::<impl (\w+)>::to_(le|be)_bytes$")
INT_FROM = re.compile(r"core::num::<impl (\w+)>::from_(le|be)_bytes$")


def _pos(t):
    return (t.span.line, t.span.col)


def _field_of(o, roots):
    """name of the struct field an origin denotes when rooted at one of `roots` (args/locals)"""
    names = []
    while o and o[0] in ("field", "ref", "deref", "proj", "variant", "cast"):
        if o[0] == "field":
            n = o[2][1:]
            if not n.isdigit():
                names.append(n)
            o = o[1]
        elif o[0] == "cast":
            o = o[2]
        else:
            o = o[1]
    if o in roots and names:
        return ".".join(reversed(names))
    return None


def writer_ops(w, f):
    """[(pos, field, enc)] for a writer fn `write(&self, w)`"""
    body = f.body
    du = defuse.DefUse(body)
    roots = [("arg", 0)]
    out = []
    # buffers filled by a call taking (&self.F, &mut buf): buf local -> (field, how)
    filled = {}
    for bb, t in sorted(body.calls(), key=lambda x: _pos(x[1])):
        if t.callee.indirect is not None:
            continue
        name = t.callee.target_p()
        args = [du.origin(a) for a in t.args]
        if WRITE_ALL.search(name) and len(args) >= 2:
            o = args[1]
            inner = defuse.strip_refs(o)
            fld = _field_of(o, roots)
            if fld:
                out.append((_pos(t), fld, "raw"))
                continue
            if inner[0] == "call":
                m = INT_TO.search(inner[1])
                if m:
                    src = inner[2][0]
                    sf = _field_of(src, roots)
                    if sf is not None and "'variant'" in repr(src):
                        sf = _binding_name(body, du, t.args[1]) or sf
                    if sf is None:
                        # a pattern binding (match self.kind { Node(Stored(left), ..) })
                        sf = _binding_name(body, du, t.args[1]) or defuse.show(src)[-24:]
                    out.append((_pos(t), sf, "int:%s:%s" % (m.group(2), m.group(1))))
                    continue
            if inner[0] == "agg" and inner[1] == "array":
                c = [x[1] for x in inner[2] if x[0] == "const"]
                if len(c) == len(inner[2]) and c:
                    out.append((_pos(t), "#tag", "tag:%s" % ",".join(map(str, c))))
                    continue
            # a local buffer
            bl = _buffer_local(body, t.args[1], du)
            if bl is not None and bl in filled:
                fld, how = filled[bl]
                out.append((_pos(t), fld, how))
                continue
            out.append((_pos(t), "?", "unknown:" + defuse.show(o)[:50]))
        elif CS_W.search(name) and len(args) >= 2:
            fld = _field_of(args[1], roots) or defuse.show(args[1])[:30]
            out.append((_pos(t), fld, "cs:" + ("unbounded" if "unbounded" in name else "bounded")))
        elif re.search(r"::write$", name) and (name.rsplit("::", 2)[-2] if "::" in name else ""):
            # nested writer: X::write(&self.f, w) or V::write(&self.data, w)
            fld = None
            for a in args:
                fld = fld or _field_of(a, roots)
            if fld and not name.startswith("core::"):
                out.append((_pos(t), fld, "nested:" + _type_of_callee(name)))
        else:
            # a call that fills a buffer from a field: (field, &mut buf)
            flds = [_field_of(a, roots) for a in args]
            bufs = [_buffer_local(body, a, du) for a in t.args]
            if any(flds) and any(b is not None for b in bufs) and len(args) >= 2:
                fld = [x for x in flds if x][0]
                b = [x for x in bufs if x is not None][-1]
                how = "u256:le" if "to_little_endian" in name else \
                    ("u256:be" if "to_big_endian" in name else "via:" + name.rsplit("::", 1)[-1])
                filled[b] = (fld, how)
    return out


def _binding_name(body, du, op):
    """debug name of the variable an operand is computed from"""
    seen = 0
    while op is not None and op.kind in ("copy", "move") and seen < 10:
        seen += 1
        nm = body.local_name(op.place.local)
        if nm:
            return nm
        d = du.single(op.place.local)
        if d is None:
            return None
        kind, _bi, x = d
        if kind == "call":
            op = x.args[0] if x.args else None
        elif x.rv.kind in ("use", "cast"):
            op = x.rv.ops[0]
        elif x.rv.kind == "ref":
            import zf
            op = zf.Op("copy", zf.Place([x.rv.place.local]))
        else:
            return None
    return None


def _buffer_local(body, op, du):
    """the array local an operand (&buf, &mut buf, &buf[..]) refers to"""
    seen = 0
    while op is not None and op.kind in ("copy", "move") and seen < 10:
        seen += 1
        l = op.place.local
        ty = body.local_ty(l)
        if re.match(r"\[u8; \d+\]$", ty):
            return l
        d = du.single(l)
        if d is None:
            return None
        kind, _bi, x = d
        if kind == "call":
            op = x.args[0] if x.args else None
        elif x.rv.kind == "use":
            op = x.rv.ops[0]
        elif x.rv.kind in ("ref", "raw"):
            l2 = x.rv.place.local
            if re.match(r"\[u8; \d+\]$", body.local_ty(l2)):
                return l2
            import zf
            op = zf.Op("copy", zf.Place([l2]))
        elif x.rv.kind == "cast":
            op = x.rv.ops[0]
        else:
            return None
    return None


def _type_of_callee(name):
    m = re.search(r"([A-Za-z0-9_]+)(::<[^>]*>)?::(read|write)$", name)
    if m:
        return m.group(1)
    m = re.search(r"<(\w+) as [\w:]*Version>::(read|write)$", name)
    return m.group(1) if m else name.rsplit("::", 2)[-2]


WORLD = [None]
_SUMMARY = {}


def _helper_summary(name):
    """encoding read by a small workspace helper `fn(reader) -> io::Result<int>` that performs exactly one
    read_exact into a byte array and returns that array decoded by from_le_bytes / from_be_bytes of the
    matching width (e.g. a private `read_u32_le`); None for anything else"""
    w = WORLD[0]
    if w is None:
        return None
    if name in _SUMMARY:
        return _SUMMARY[name]
    _SUMMARY[name] = None
    fs = [g for g in w.fns.values() if g.p == name and g.body is not None and not g.is_closure()]
    if len(fs) != 1:
        return None
    b = fs[0].body
    calls = [t for bb, t in b.calls() if t.callee.indirect is None and not b.blocks[bb].cleanup]
    reads = [t for t in calls if READ_EXACT.search(t.callee.target_p())]
    ints = [INT_FROM.search(t.callee.target_p()) for t in calls if INT_FROM.search(t.callee.target_p())]
    other = [t for t in calls if CS_R.search(t.callee.target_p()) or
             (re.search(r"::read(_\w+)?$", t.callee.target_p()) and not READ_EXACT.search(t.callee.target_p()))]
    if len(reads) != 1 or len(ints) != 1 or other:
        return None
    width = {"u8": 1, "u16": 2, "u32": 4, "u64": 8, "i8": 1, "i16": 2, "i32": 4, "i64": 8, "u128": 16}.get(ints[0].group(1))
    bufs = [ty for ty, _n in b.locals if re.match(r"^\[u8; %s\]$" % width, ty)]
    if width is None or not bufs:
        return None
    _SUMMARY[name] = "int:%s:%s" % (ints[0].group(2), ints[0].group(1))
    return _SUMMARY[name]


def reader_ops(w, f):
    """[(pos, field, enc)] for a reader fn `read(.., r) -> io::Result<Self>`"""
    WORLD[0] = w
    body = f.body
    du = defuse.DefUse(body)
    out = []
    # the value under construction: locals of the Self type
    selfty = f.self_ty or ""
    data_locals = {i for i, (ty, _n) in enumerate(body.locals) if ty == selfty}
    roots = [("local", l) for l in data_locals]
    pending = {}     # buffer local -> pos of the read_exact that filled it
    events = []
    for bb, t in body.calls():
        if t.callee.indirect is None:
            events.append((_pos(t), "call", bb, t))
    for bi, blk in enumerate(body.blocks):
        if blk.cleanup:
            continue
        for s in blk.stmts:
            if s.kind == "=" and s.span is not None:
                events.append(((s.span.line, s.span.col), "stmt", bi, s))
    events.sort(key=lambda e: (e[0], 0 if e[1] == "call" else 1))
    for pos, kind, bi, x in events:
        if kind == "call":
            t = x
            name = t.callee.target_p()
            if READ_EXACT.search(name) and len(t.args) >= 2:
                o = du.origin(t.args[1])
                fld = _field_of_place(body, du, t.args[1], data_locals)
                if fld:
                    out.append((pos, fld, "raw"))
                else:
                    b = _buffer_local(body, t.args[1], du)
                    if b is not None:
                        pending[b] = pos
                    else:
                        out.append((pos, "?", "unknown-read"))
            elif t.dest is not None:
                tgt = None
                if t.dest.local in data_locals and t.dest.proj and t.dest.proj[-1].startswith("."):
                    tgt = ".".join(p[1:] for p in t.dest.proj if p.startswith("."))
                elif not t.dest.proj and body.local_name(t.dest.local) not in (None, "val", "residual"):
                    tgt = body.local_name(t.dest.local)
                if tgt:
                    m = INT_FROM.search(name)
                    enc = None
                    if m:
                        enc = "int:%s:%s" % (m.group(2), m.group(1))
                    elif "from_little_endian" in name:
                        enc = "u256:le"
                    elif CS_R.search(name):
                        enc = "cs:" + ("unbounded" if "unbounded" in name else "bounded")
                    else:
                        enc = _helper_summary(name)
                    if enc:
                        out.append((pos, tgt, enc))
            continue
        s = x
        # store into the value under construction, or a let binding, or the aggregate itself
        if s.rv.kind == "agg" and s.rv.agg[0] == "adt" and s.ty == selfty:
            for fname, op in zip(s.rv.agg[3], s.rv.ops):
                e = _decode(body, du, op, pending)
                if e:
                    out.append((e[0] or pos, fname, e[1]))
            continue
        tgt = None
        if s.place.local in data_locals and s.place.proj and s.place.proj[-1].startswith("."):
            tgt = ".".join(p[1:] for p in s.place.proj if p.startswith("."))
        elif not s.place.proj and body.local_name(s.place.local) not in (None, "val", "residual"):
            tgt = body.local_name(s.place.local)
        if tgt is None or s.rv.kind != "use":
            continue
        e = _decode(body, du, s.rv.ops[0], pending)
        if e:
            out.append((e[0] or pos, tgt, e[1]))
    out.sort(key=lambda e: e[0])
    return out


def _field_of_place(body, du, op, data_locals):
    """field path when an operand is `&mut data.F`"""
    seen = 0
    while op is not None and op.kind in ("copy", "move") and seen < 8:
        seen += 1
        d = du.single(op.place.local)
        if d is None:
            return None
        kind, _bi, x = d
        if kind == "call":
            op = x.args[0] if x.args else None
            continue
        if x.rv.kind in ("ref", "raw"):
            pl = x.rv.place
            if pl.local in data_locals and pl.proj:
                names = [p[1:] for p in pl.proj if p.startswith(".")]
                if names:
                    return ".".join(names)
            import zf
            if not pl.proj or pl.proj == ("*",):
                op = zf.Op("copy", zf.Place([pl.local]))
                continue
            return None
        if x.rv.kind in ("use", "cast"):
            op = x.rv.ops[0]
            continue
        return None
    return None


def _decode(body, du, op, pending):
    """(pos of the underlying read or None, encoding) for a decoded value operand"""
    o = du.origin(op)
    seen = 0
    while o and seen < 12:
        seen += 1
        if o[0] in ("field", "variant", "ref", "deref", "proj"):
            o = o[1]
            continue
        if o[0] == "cast":
            o = o[2]
            continue
        if o[0] == "call":
            name = o[1]
            m = INT_FROM.search(name)
            if m:
                return (None, "int:%s:%s" % (m.group(2), m.group(1)))
            if "from_little_endian" in name:
                return (None, "u256:le")
            if "from_big_endian" in name:
                return (None, "u256:be")
            mm = CS_R.search(name)
            if mm:
                return (None, "cs:" + ("unbounded" if "unbounded" in mm.group(1) else "bounded"))
            if re.search(r"::read$", name) and not name.startswith("core::"):
                return (None, "nested:" + _type_of_callee(name))
            hs = _helper_summary(name)
            if hs:
                return (None, hs)
            if re.search(r"::(branch|from_residual|map_err|map|from|into|ok_or)$", name) and o[2]:
                o = o[2][0]
                continue
            return None
        return None
    return None
