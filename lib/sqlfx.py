"""sqlfx — SQL statement sites, transaction scopes and write effects for zcash_client_sqlite.

Shared by the C02 rules (atomicity discipline) and by other properties that need to know which
functions write which tables.  Pure static analysis over zfacts MIR + the source text of SQL
string literals (lexed, never executed).
"""
import re
from collections import defaultdict

import zf

CRATE = "zcash_client_sqlite"

EXEC = {
    "rusqlite::Connection::execute", "rusqlite::Connection::execute_batch",
    "rusqlite::Statement::<'_>::execute", "rusqlite::Statement::<'_>::insert",
    "rusqlite::Statement::<'_>::raw_execute",
}
QUERY = {
    "rusqlite::Connection::query_row", "rusqlite::Connection::query_row_and_then",
    "rusqlite::Statement::<'_>::query", "rusqlite::Statement::<'_>::query_and_then",
    "rusqlite::Statement::<'_>::query_map", "rusqlite::Statement::<'_>::query_row",
    "rusqlite::Statement::<'_>::exists", "rusqlite::Connection::query_one",
    "rusqlite::Statement::<'_>::query_one",
}
PREP = {"rusqlite::Connection::prepare",
        "rusqlite::cache::<impl rusqlite::Connection>::prepare_cached"}
OPEN = {
    "rusqlite::transaction::<impl rusqlite::Connection>::transaction",
    "rusqlite::transaction::<impl rusqlite::Connection>::unchecked_transaction",
    "rusqlite::transaction::<impl rusqlite::Connection>::transaction_with_behavior",
    "rusqlite::transaction::<impl rusqlite::Connection>::savepoint",
    "rusqlite::Transaction::<'conn>::new", "rusqlite::Transaction::<'conn>::new_unchecked",
    "rusqlite::Transaction::<'_>::savepoint",
}
COMMIT = {"rusqlite::Transaction::<'_>::commit", "rusqlite::Savepoint::<'_>::commit"}
ROLLBACK = {"rusqlite::Transaction::<'_>::rollback", "rusqlite::Savepoint::<'_>::rollback"}

WITNESS = re.compile(r"rusqlite::Transaction\b|\bSqlTransaction\b|rusqlite::Savepoint\b")
TX_LOCAL = re.compile(r"^rusqlite::(Transaction|Savepoint)<")

WRITE_VERB = re.compile(r"\b(INSERT|UPDATE|DELETE|REPLACE|CREATE|DROP|ALTER)\b")
TXN_VERB = re.compile(r"^\s*(BEGIN|COMMIT|ROLLBACK|END|SAVEPOINT|RELEASE)\b")
READ_ONLY = re.compile(r"^\s*(SELECT|WITH|PRAGMA|EXPLAIN|VALUES)\b")

_STR = re.compile(r'r(#*)"(.*?)"\1|"((?:[^"\\]|\\.)*)"', re.S)


_FN_TY = re.compile(r"(?:dyn |impl )?(?:for<[^>]*> )?(?:core::ops::)?(?:Fn|FnOnce|FnMut|fn)\s*\(")


def _strip_fn_types(t):
    """remove `dyn Fn(args) -> ret` / `fn(args)` parts of a type string"""
    out = t
    while True:
        m = _FN_TY.search(out)
        if not m:
            return out
        i = m.end()
        depth = 1
        while i < len(out) and depth:
            if out[i] in "(<[":
                depth += 1
            elif out[i] in ")>]":
                depth -= 1
            i += 1
        # optional return type up to the next top-level , or > or end
        j = i
        if out[j:j + 4] == " -> ":
            j += 4
            depth = 0
            while j < len(out):
                ch = out[j]
                if ch in "(<[":
                    depth += 1
                elif ch in ")>]":
                    if depth == 0:
                        break
                    depth -= 1
                elif ch in ",+" and depth == 0:
                    break
                j += 1
        out = out[:m.start()] + "FNTYPE" + out[j:]


def string_literals(text):
    out = []
    # strip line comments first (keep strings intact: naive but SQL literals hold no //)
    for m in _STR.finditer(text):
        out.append(m.group(2) if m.group(2) is not None else m.group(3))
    return out


def is_test_fn(f):
    fl = f.span.file
    return ("::testing" in f.p or fl.endswith("/testing.rs") or "/testing/" in fl
            or "::tests::" in f.p or fl.endswith("/tests.rs"))


class SqlFx:
    def __init__(self, world, repo):
        self.w = world
        self.repo = repo
        self.sites = {}      # fid -> list of (bb, kind, term, sqltext)
        self._du = {}
        self.fn_sql = {}
        self._maywrite = None
        self._maystmt = None
        self.crate_fns = [f for f in world.fns.values()
                          if f.crate.name == CRATE and not is_test_fn(f)]
        for f in world.fns.values():
            self.sites[f.id] = self._sites(f)

    # ---- statement sites
    def call_text(self, f, t):
        ls = zf.source_lines(self.repo, t.span.file)
        return "\n".join(ls[t.span.line - 1: t.span.endline])

    def _sites(self, f):
        out = []
        if f.crate.name != CRATE:
            return out
        fsql = None
        for bb, t in f.body.calls():
            if t.callee.indirect is not None:
                continue
            p = t.callee.target_p()
            kind = None
            if p in EXEC or p in QUERY or p in PREP:
                lits = string_literals(self.call_text(f, t))
                lits = [l for l in lits if re.search(r"[A-Z]{4,}", l)]
                if not lits and p.startswith("rusqlite::Statement") and t.args:
                    # a prepared statement: the SQL is at the prepare call it came from
                    pt = self._prepare_of(f, t.args[0])
                    if pt is not None:
                        lits = [l for l in string_literals(self.call_text(f, pt))
                                if re.search(r"[A-Z]{4,}", l)]
                if not lits:
                    if fsql is None:
                        fsql = [l for l in string_literals(zf.fn_source(self.repo, f))
                                if re.search(r"\b(SELECT|INSERT|UPDATE|DELETE|CREATE|DROP|ALTER|"
                                             r"REPLACE|BEGIN|COMMIT|ROLLBACK|PRAGMA|WITH)\b", l)]
                    lits = fsql
                text = "\n;\n".join(lits)
                if p in PREP:
                    kind = "P"
                elif p in EXEC:
                    if lits and all(TXN_VERB.search(l) for l in lits):
                        v = TXN_VERB.search(lits[0]).group(1)
                        kind = {"BEGIN": "OPEN", "SAVEPOINT": "OPEN", "COMMIT": "COMMIT",
                                "END": "COMMIT", "RELEASE": "COMMIT",
                                "ROLLBACK": "ROLLBACK"}[v]
                    elif lits and all(READ_ONLY.search(l) and not WRITE_VERB.search(l)
                                      for l in lits):
                        kind = "R"
                    else:
                        kind = "W"      # unknown SQL given to execute(): a write
                else:
                    kind = "W" if (lits and any(WRITE_VERB.search(l) for l in lits)) else "R"
                    if not lits:
                        kind = "R"
                out.append((bb, kind, t, text))
            elif p in OPEN:
                out.append((bb, "OPEN", t, ""))
            elif p in COMMIT:
                out.append((bb, "COMMIT", t, ""))
            elif p in ROLLBACK:
                out.append((bb, "ROLLBACK", t, ""))
        return out

    def _prepare_of(self, f, op, depth=0):
        """the prepare/prepare_cached call terminator a statement operand comes from"""
        import defuse
        du = self._du.get(f.id)
        if du is None:
            du = self._du[f.id] = defuse.DefUse(f.body)
        seen = 0
        while op is not None and op.kind in ("copy", "move") and seen < 16:
            seen += 1
            d = du.single(op.place.local)
            if d is None:
                return None
            kind, _bi, x = d
            if kind == "call":
                if x.callee.indirect is None and x.callee.target_p() in PREP:
                    return x
                op = x.args[0] if x.args else None
                continue
            rv = x.rv
            if rv.kind == "use":
                op = rv.ops[0]
            elif rv.kind == "ref":
                op = zf.Op("copy", rv.place)
            else:
                return None
        return None

    # ---- witness
    def has_witness(self, f):
        """the function holds an open transaction by type: a parameter, captured variable or
        receiver IS (or contains) a rusqlite Transaction / Savepoint / SqlTransaction.  A
        function-typed parameter that merely takes a transaction argument is not a witness."""
        tys = [f.body.local_ty(i) for i in range(1, f.body.argc + 1)] + list(f.upvar_tys)
        if f.self_ty:
            tys.append(f.self_ty)
        return any(WITNESS.search(_strip_fn_types(t)) for t in tys)

    # ---- transitive effects
    def ext_maywrite(self, term, body=None):
        """external (non-workspace) callee that can call back into the sqlite shard store's
        mutating methods: a shardtree/incrementalmerkletree function instantiated with the
        crate's store and taking the tree/store by `&mut` (the `&self` API can only read)"""
        ce = term.callee
        if ce.indirect is not None:
            return False
        tid = ce.target_id()
        if tid in self.w.fns:
            return False
        p = ce.target_p()
        if not (p.startswith("shardtree::") or p.startswith("incrementalmerkletree::")):
            return False
        full = ce.full or ""
        if "SqliteShardStore" not in full and CRATE not in full:
            return False
        if body is not None and term.args:
            a = term.args[0]
            if a.kind in ("copy", "move") and not a.place.proj:
                return body.local_ty(a.place.local).startswith("&mut ")
        return True

    def maywrite(self):
        """fid -> True if f may (transitively) execute a SQL write"""
        if self._maywrite is None:
            self._maywrite = self._closure(lambda k: k == "W", self.ext_maywrite)
        return self._maywrite

    def maystmt(self):
        if self._maystmt is None:
            self._maystmt = self._closure(lambda k: k in ("W", "R"), self.ext_maywrite)
        return self._maystmt

    def _closure(self, pred, extpred):
        w = self.w
        direct = set()
        for fid, ss in self.sites.items():
            if any(pred(k) for _bb, k, _t, _s in ss):
                direct.add(fid)
        for f in w.fns.values():
            if f.crate.name == CRATE:
                for _bb, t in f.body.calls():
                    if extpred(t, f.body):
                        direct.add(f.id)
                        break
        # reverse reachability
        rev = defaultdict(set)
        for f in w.fns.values():
            for g in w.callees(f.id):
                rev[g].add(f.id)
        seen = set(direct)
        q = list(direct)
        while q:
            x = q.pop()
            for y in rev.get(x, ()):
                if y not in seen:
                    seen.add(y)
                    q.append(y)
        return seen

    def site_maywrite(self, f, bb, t):
        """may this call terminator execute a SQL write (directly, through its callee, or through
        a closure passed to it)?"""
        for b2, k, t2, _s in self.sites.get(f.id, ()):
            if t2 is t:
                return k == "W"
        if self.ext_maywrite(t, f.body):
            return True
        mw = self.maywrite()
        return any(g in mw for g in self.w.call_targets(t))

    # ---- local transaction scope: must-be-open dataflow
    def open_state(self, f):
        """dict bb -> (open_at_entry: bool); plus per call site whether the tx is open there.
        A tx is open after an OPEN site and until COMMIT/ROLLBACK or the drop of a local of
        type rusqlite::Transaction."""
        body = f.body
        n = len(body.blocks)
        kinds = {}
        for bb, k, t, _s in self.sites.get(f.id, ()):
            kinds[bb] = k
        IN = {0: False}
        work = [0]
        at_site = {}
        while work:
            b = work.pop()
            st = IN[b]
            blk = body.blocks[b]
            t = blk.term
            at_site[b] = st
            out = st
            k = kinds.get(b)
            if k == "OPEN":
                out = True
            elif k in ("COMMIT", "ROLLBACK"):
                out = False
            elif t.kind == "drop" and not t.place.proj and TX_LOCAL.search(body.local_ty(t.place.local)):
                out = False
            for s in t.succs():
                new = out if s not in IN else (IN[s] and out)
                if s not in IN or IN[s] != new:
                    IN[s] = new
                    work.append(s)
        return at_site


def cyclic_blocks(body):
    """set of blocks that lie on a CFG cycle (normal edges)"""
    n = len(body.blocks)
    index = {}
    low = {}
    onstack = set()
    stack = []
    res = set()
    counter = [0]
    import sys
    sys.setrecursionlimit(10000)

    def strong(v):
        index[v] = low[v] = counter[0]
        counter[0] += 1
        stack.append(v)
        onstack.add(v)
        for wv in body.succs(v):
            if wv not in index:
                strong(wv)
                low[v] = min(low[v], low[wv])
            elif wv in onstack:
                low[v] = min(low[v], index[wv])
        if low[v] == index[v]:
            comp = []
            while True:
                x = stack.pop()
                onstack.discard(x)
                comp.append(x)
                if x == v:
                    break
            if len(comp) > 1 or v in body.succs(v):
                res.update(comp)
    strong(0)
    return res


def max_path_weight(body, weight, cap=2):
    """max over CFG paths from bb0 of the summed block weights, capped; a positive-weight block on
    a cycle counts as `cap`"""
    cyc = cyclic_blocks(body)
    for b, wgt in weight.items():
        if wgt > 0 and b in cyc:
            return cap
    memo = {}
    import sys
    sys.setrecursionlimit(10000)

    def go(b, onpath):
        if b in memo:
            return memo[b]
        if b in onpath:
            return 0
        onpath.add(b)
        best = 0
        for s in body.succs(b):
            best = max(best, go(s, onpath))
        onpath.discard(b)
        v = min(cap, weight.get(b, 0) + best)
        memo[b] = v
        return v
    return go(0, set())
