#!/usr/bin/env python3
"""keep a confirmed seeded change: keep_seed.py <PID> <n> <seed_dir> <demo_file> <detected(yes/no)> "<rules that caught it>" "<confirm cmds>" """
import json, os, shutil, sys
pid, n, sd, demo, det, rules, cmds = sys.argv[1:8]
dst = "/verif/seeded/%s-%s" % (pid, n)
os.makedirs(dst, exist_ok=True)
shutil.copy(os.path.join(sd, "patch.diff"), dst)
shutil.copy(demo, dst)
meta = json.load(open(os.path.join(sd, "meta.json")))
meta["property"] = pid
meta["confirmed_by_main_session"] = {
    "how": "applied in a scratch git worktree of /repo: existing tests of the touched crate pass WITH the patch; the demonstration FAILS with it and PASSES without it",
    "commands": cmds}
meta["check_result"] = {"detected": det == "yes", "by": rules}
json.dump(meta, open(os.path.join(dst, "meta.json"), "w"), indent=1)
print("kept", dst)
