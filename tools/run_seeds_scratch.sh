#!/bin/bash
# like run_seeds.sh but on a scratch worktree of /repo (VERIF_REPO) with its own evidence dir, so the
# main tree and /verif/evidence stay untouched and other checks can run meanwhile.
# usage: run_seeds_scratch.sh [PID]
cd /verif
WT=/tmp/wt-seeds
git -C /repo worktree remove --force $WT 2>/dev/null; rm -rf $WT
git -C /repo worktree add --detach $WT HEAD >/dev/null 2>&1 || { echo "cannot create worktree"; exit 2; }
export VERIF_REPO=$WT VERIF_EVIDENCE_DIR=/tmp/wt-seeds-evidence
mkdir -p $VERIF_EVIDENCE_DIR/replay
for d in seeded/*/; do
  id=$(basename $d); pid=${id%%-*}
  [ -n "$1" ] && [ "$pid" != "$1" ] && continue
  if git -C $WT apply /verif/$d/patch.diff 2>/dev/null; then
    out=$(./check $pid 2>&1)
    if echo "$out" | grep -q "^VIOLATION"; then
      echo "$id DETECTED $(echo "$out" | grep '^  violation' | grep -v '/floor' | head -2 | sed 's/  violation rule=//' | cut -c1-110 | tr '\n' ';')"
    elif echo "$out" | grep -q "^OK "; then
      echo "$id MISSED"
    else
      echo "$id ERROR $(echo "$out" | tail -2 | tr '\n' ' ' | cut -c1-200)"
    fi
    git -C $WT checkout -- .
  else
    echo "$id PATCH-DOES-NOT-APPLY"
  fi
done
git -C /repo worktree remove --force $WT; rm -rf $WT $VERIF_EVIDENCE_DIR
