#!/bin/bash
# usage: confirm_seed_diff.sh <worktree> <seed_dir> "<existing test cmd>" "<demo cmd>"   (demo given as demo.diff)
WT=$1; SD=$2; TESTCMD=$3; DEMOCMD=$4
export CARGO_NET_OFFLINE=true CARGO_TARGET_DIR=$WT/target
cd $WT || exit 2
git checkout -q -- . && git clean -qfd -e target
git apply $SD/patch.diff || { echo "PATCH DOES NOT APPLY"; exit 2; }
echo "## existing tests WITH patch"; eval "$TESTCMD" 2>&1 | grep -E "^test result|FAILED|error(\[|:)" | sort | uniq -c | head -8
git apply $SD/demo.diff || { echo "DEMO DOES NOT APPLY on patched tree"; }
echo "## demo WITH patch (expect failure)"; eval "$DEMOCMD" 2>&1 | grep -E "^test result|FAILED|error(\[|:)|panicked" | head -5
git checkout -q -- . && git clean -qfd -e target
git apply $SD/demo.diff || { echo "DEMO DOES NOT APPLY on clean tree"; }
echo "## demo WITHOUT patch (expect pass)"; eval "$DEMOCMD" 2>&1 | grep -E "^test result|FAILED|error(\[|:)|panicked" | head -5
git checkout -q -- . && git clean -qfd -e target
