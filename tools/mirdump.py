#!/usr/bin/env python3
"""dev helper: dump decoded MIR of fns whose pretty path matches a regex"""
import sys, os
sys.path.insert(0, os.path.join(os.path.dirname(__file__), "..", "lib"))
import zf, extract
crates = sys.argv[2].split(",") if len(sys.argv) > 2 else None
w = zf.World(extract.facts_dir("all"), crates)
for f in w.find(sys.argv[1]):
    print("=====", f.id, "|", f.p, f.span, f.kind, "vis", f.vis, "exported", f.exported)
    print("  inputs", f.inputs, "->", f.output, "args", f.argnames, "self", f.self_ty, "trait", f.trait)
    print(f.body.dump())
    for i, p in enumerate(f.promoted):
        print("  -- promoted[%d]" % i)
        print(p.dump())
