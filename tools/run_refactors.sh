#!/bin/bash
# Replays behaviour-preserving edits (refactors/<name>/patch.diff, property in meta.json) on a scratch
# worktree of /repo and runs the property's check: every ALARM is a false alarm of the machinery.
# usage: run_refactors.sh <dir with <name>/patch.diff> [name-prefix]
cd /verif
SRC=${1:-/verif/refactors}
WT=/tmp/wt-refac
git -C /repo worktree remove --force $WT 2>/dev/null; rm -rf $WT
git -C /repo worktree add --detach $WT HEAD >/dev/null 2>&1 || { echo "cannot create worktree"; exit 2; }
export VERIF_REPO=$WT VERIF_EVIDENCE_DIR=/tmp/wt-refac-evidence
mkdir -p $VERIF_EVIDENCE_DIR/replay
for d in $SRC/*/; do
  id=$(basename $d)
  [ -f $d/patch.diff ] || continue
  [ -n "$2" ] && [[ "$id" != $2* ]] && continue
  pid=$(python3 -c "import json,sys;print(json.load(open('$d/meta.json'))['property'].upper())" 2>/dev/null)
  [ -z "$pid" ] && pid=$(echo ${id%%-*} | tr a-z A-Z)
  if git -C $WT apply $d/patch.diff 2>/dev/null; then
    out=$(./check $pid 2>&1)
    if echo "$out" | grep -q "^VIOLATION"; then
      echo "$id ($pid) ALARM $(echo "$out" | grep '^  violation' | head -3 | sed 's/  violation rule=//' | cut -c1-120 | tr '\n' ';')"
    elif echo "$out" | grep -q "^OK "; then
      echo "$id ($pid) quiet"
    else
      echo "$id ($pid) ERROR $(echo "$out" | tail -2 | tr '\n' ' ' | cut -c1-200)"
    fi
    git -C $WT checkout -- .
  else
    echo "$id PATCH-DOES-NOT-APPLY"
  fi
done
git -C /repo worktree remove --force $WT; rm -rf $WT $VERIF_EVIDENCE_DIR
