#!/bin/bash
# re-run every claimed check on /repo's clean tree so that the committed evidence is from the clean tree
cd /verif
test -z "$(git -C /repo status --porcelain | grep -v '^??')" || { echo "repo dirty"; exit 1; }
rm -rf evidence/replay
for id in $(python3 -c "import json;print(' '.join(c['property_id'] for c in json.load(open('MANIFEST.json'))['checks']))"); do
  ./check $id > /tmp/refresh_$id.log 2>&1; rc=$?
  echo "$id exit=$rc $(tail -1 /tmp/refresh_$id.log | cut -c1-110)"
done
python3-vt - <<'PY'
import json,jsonschema,glob
sch=json.load(open('/root/.vp/EVIDENCE.schema.json'))
for f in sorted(glob.glob('/verif/evidence/C*.json')):
    e=json.load(open(f)); jsonschema.validate(e,sch)
    c=e['coverage']
    assert e['violations']==0,(f,e['violations'])
    if e['level']=='proof': assert c['obligations']==c['discharged'],f
print('evidence valid')
PY
