#!/bin/bash
# usage: confirm_seed_append.sh <worktree> <seed_dir> <demo_src> <target_file(relative)> "<existing test cmd>" "<demo cmd>"  (demo appended to target file)
WT=$1; SD=$2; DS=$3; TF=$4; TESTCMD=$5; DEMOCMD=$6
export CARGO_NET_OFFLINE=true CARGO_TARGET_DIR=$WT/target
cd $WT || exit 2
git checkout -q -- . && git clean -qfd -e target
git apply $SD/patch.diff || { echo "PATCH DOES NOT APPLY"; exit 2; }
echo "## existing tests WITH patch"; eval "$TESTCMD" 2>&1 | grep -E "^test result|FAILED|error(\[|:)" | sort | uniq -c | head -8
cat $DS >> $TF
echo "## demo WITH patch (expect failure)"; eval "$DEMOCMD" 2>&1 | grep -E "^test result|FAILED|error(\[|:)|panicked" | head -5
git checkout -q -- . && git clean -qfd -e target
cat $DS >> $TF
echo "## demo WITHOUT patch (expect pass)"; eval "$DEMOCMD" 2>&1 | grep -E "^test result|FAILED|error(\[|:)|panicked" | head -5
git checkout -q -- . && git clean -qfd -e target
