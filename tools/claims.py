ENGINES = [
 {"name": "sqlfx+TX (E1)", "path": "lib/sqlfx.py, rules/c02.py", "serves_properties": ["C02"], "kind_free_text": "transaction-scope must-dataflow, commit-unit call-graph fixpoint, assume-Err reachability over MIR; SQL literals lexed for read/write classification"},
 {"name": "zfacts", "path": "zfacts/", "serves_properties": ["C02", "C09"], "kind_free_text": "rustc_private driver: dumps HIR items and MIR of every workspace body as JSON facts (never runs the code)"},
 {"name": "absint (E2)", "path": "lib/absint.py", "serves_properties": ["C09"], "kind_free_text": "forward abstract interpreter over MIR: interval sets + polynomial normal forms + per-variant fact stores"},
]
NOT_APPLICABLE = {
 "C07": "every clause is an arithmetic identity/inequality over runtime amounts and policy parameters (conservation, exact ZIP 317 fee); no clause is visible in the shape of the code; the structural parts (checked Zatoshis arithmetic) are decided under C09",
 "C11": "algebraic laws over ZIP 32 derivation and encryption (derivation commutes with encoding, decryptability); no sound static argument in reach",
 "C15": "correctness of a pure case analysis over range relations x priorities and termination of a client loop: deciding it means evaluating the functions over their domain (execution), not static analysis",
 "C17": "bounds on RNG-drawn values, greedy optimality and lattice monotonicity are value-level claims needing relational arithmetic reasoning beyond interval analysis",
}
CLAIMS = {
 "C02": {"engine": "sqlfx+TX (E1)", "level": "proof", "ref": "DESIGN.md §3 E1, §4 C02",
   "technique": "MIR dataflow: transaction-scope must-analysis, commit-unit fixpoint over the resolved call graph (closure + CHA edges), assume-Err reachability for error discipline",
   "text": "Proves the structural atomicity discipline for every public write operation of zcash_client_sqlite (about 85 entry points) and the generic low-level wallet code that runs inside its transactions: all SQL writes of an operation lie in one transaction scope or are a single autocommitted statement (TX-1); commit is unreachable once a writing or closure-running call failed, is never executed twice, and is never skipped on an Ok return after writes (TX-2); no writing call's error can be swallowed (TX-3, about 370 call sites); the three named snapshot reads run entirely inside one transaction (TX-4); store operations read their guards in the writing scope (TX-5). Given SQLite's transaction semantics this yields all-or-nothing for errors, crashes at the commit boundary and concurrent snapshot readers. Not decided: that a retried operation reproduces the same state.",
   "note": "Trusted: SQLite/rusqlite transaction semantics (rollback on drop), rustc MIR and trait resolution, the SQL literal lexer (unknown SQL passed to execute counts as a write), external crates execute no SQL except shardtree via the crate's ShardStore impls. FsBlockDb (block cache) and the schema-migration runner are outside the property's scope and analysed for information only."},
 "C09": {"engine": "absint (E2)", "level": "proof", "ref": "DESIGN.md §3 E2, §4 C09",
   "technique": "abstract interpretation of MIR (interval sets, polynomial normal forms, variant-partitioned facts) under inductive type invariants",
   "text": "Decides the property for the whole anchor module: every construction of Zatoshis/ZatBalance anywhere in the workspace is inside value.rs and proven in range in every calling context; every constructor/parser/operator returns exactly the polynomial its interface means, succeeds only inside and fails only outside the accepted range (per failure site), with the error kind on the right side; no reachable panic, wrap or truncating cast; byte encodings pair up. Inductive over the type invariant, so it holds for all inputs, not samples.",
   "note": "Trusted: rustc MIR semantics; the models of core functions in lib/absint.py; external callees return arbitrary values of their type and do not panic. Accepted idioms (listed in evidence): const_from_* panic exactly on out-of-range input; Mul<usize> fails when the multiplier is not representable."},
}
