ENGINES = [
 {"name": "zfacts", "path": "zfacts/", "serves_properties": ["C09"], "kind_free_text": "rustc_private driver: dumps HIR items and MIR of every workspace body as JSON facts (never runs the code)"},
 {"name": "absint (E2)", "path": "lib/absint.py", "serves_properties": ["C09"], "kind_free_text": "forward abstract interpreter over MIR: interval sets + polynomial normal forms + per-variant fact stores"},
]
NOT_APPLICABLE = {
 "C07": "every clause is an arithmetic identity/inequality over runtime amounts and policy parameters (conservation, exact ZIP 317 fee); no clause is visible in the shape of the code; the structural parts (checked Zatoshis arithmetic) are decided under C09",
 "C11": "algebraic laws over ZIP 32 derivation and encryption (derivation commutes with encoding, decryptability); no sound static argument in reach",
 "C15": "correctness of a pure case analysis over range relations x priorities and termination of a client loop: deciding it means evaluating the functions over their domain (execution), not static analysis",
 "C17": "bounds on RNG-drawn values, greedy optimality and lattice monotonicity are value-level claims needing relational arithmetic reasoning beyond interval analysis",
}
CLAIMS = {
 "C09": {"engine": "absint (E2)", "level": "proof", "ref": "DESIGN.md §3 E2, §4 C09",
   "technique": "abstract interpretation of MIR (interval sets, polynomial normal forms, variant-partitioned facts) under inductive type invariants",
   "text": "Decides the property for the whole anchor module: every construction of Zatoshis/ZatBalance anywhere in the workspace is inside value.rs and proven in range in every calling context; every constructor/parser/operator returns exactly the polynomial its interface means, succeeds only inside and fails only outside the accepted range (per failure site), with the error kind on the right side; no reachable panic, wrap or truncating cast; byte encodings pair up. Inductive over the type invariant, so it holds for all inputs, not samples.",
   "note": "Trusted: rustc MIR semantics; the models of core functions in lib/absint.py; external callees return arbitrary values of their type and do not panic. Accepted idioms (listed in evidence): const_from_* panic exactly on out-of-range input; Mul<usize> fails when the multiplier is not representable."},
}
