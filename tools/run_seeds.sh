#!/bin/bash
# apply every kept seeded change to /repo in turn, run its property's check, revert; report detection
cd /verif
st=$(git -C /repo status --porcelain | grep -v '^??')
[ -n "$st" ] && { echo "repo dirty"; exit 2; }
for d in seeded/*/; do
  id=$(basename $d); pid=${id%%-*}
  [ -n "$1" ] && [ "$pid" != "$1" ] && continue
  if git -C /repo apply /verif/$d/patch.diff 2>/dev/null; then
    out=$(./check $pid 2>&1)
    if echo "$out" | grep -q "^VIOLATION"; then
      echo "$id DETECTED $(echo "$out" | grep '^  violation' | grep -v '/floor' | head -2 | sed 's/  violation rule=//' | cut -c1-110 | tr '\n' ';')"
    else
      echo "$id MISSED"
    fi
    git -C /repo checkout -- .
  else
    echo "$id PATCH-DOES-NOT-APPLY"
  fi
done
