#!/usr/bin/env python3
"""regenerate MANIFEST.json from the claims table below (single source of truth)"""
import json, os
HERE = os.path.dirname(os.path.dirname(os.path.abspath(__file__)))
props = [json.loads(l) for l in open(os.path.join(HERE, "properties.jsonl"))]
exec(open(os.path.join(HERE, "tools", "claims.py")).read())
checks = []
for pid, c in sorted(CLAIMS.items()):
    checks.append({
        "property_id": pid,
        "quick_cmd": "./check %s --tier quick" % pid,
        "thorough_cmd": "./check %s --tier thorough" % pid,
        "evidence_file": "/verif/evidence/%s.json" % pid,
        "replay_cmd_template": "cat {path}",
        "engine": c["engine"],
        "level_claimed": {"category": c["level"], "text": c["text"], "design_ref": c["ref"]},
        "level_note": c["note"],
        "technique": c["technique"],
    })
na = [{"property_id": p["id"], "reason": NOT_APPLICABLE.get(p["id"], "designed (DESIGN.md) but checker not built yet; not claimed until built and tested both ways")}
      for p in props if p["id"] not in CLAIMS]
m = {
    "version": 1,
    "setup_cmd": "cd /verif && python3 lib/extract.py all",
    "hooks": {"guard": "zcash_librustzcash_verif",
              "enable": "none needed: static analysis reads the unmodified source through a rustc driver (RUSTC_WORKSPACE_WRAPPER); no hook commits exist",
              "baseline_off_cmd": "cd /repo && cargo test --workspace --no-fail-fast --offline",
              "source_commits": [], "add_only": True},
    "engines": ENGINES,
    "checks": checks,
    "notes": "Static analysis only (MIR dataflow / abstract interpretation / structural rules over rustc facts). See DESIGN.md.",
    "not_applicable": na,
}
json.dump(m, open(os.path.join(HERE, "MANIFEST.json"), "w"), indent=1)
print("claimed:", sorted(CLAIMS), "n/a:", [x["property_id"] for x in na])
