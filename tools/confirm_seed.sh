#!/bin/bash
# usage: confirm_seed.sh <worktree> <seed_dir> <demo_src> <demo_dst(relative)> "<existing test cmd>" "<demo cmd>"
# confirms: existing tests pass WITH the patch; demo FAILS with it and PASSES without it.
WT=$1; SD=$2; DS=$3; DD=$4; TESTCMD=$5; DEMOCMD=$6
export CARGO_NET_OFFLINE=true CARGO_TARGET_DIR=$WT/target
cd $WT || exit 2
git checkout -q -- . && git clean -qfd -e target
git apply $SD/patch.diff || { echo "PATCH DOES NOT APPLY"; exit 2; }
echo "## existing tests WITH patch"; eval "$TESTCMD" 2>&1 | grep -E "^test result|FAILED|error(\[|:)" | sort | uniq -c | head -8
mkdir -p $(dirname $DD); cp $DS $DD
echo "## demo WITH patch (expect failure)"; eval "$DEMOCMD" 2>&1 | grep -E "^test result|FAILED|error(\[|:)|panicked" | head -5
git checkout -q -- .   # revert the patch, keep the (untracked) demo
if git ls-files --error-unmatch $DD >/dev/null 2>&1; then cp $DS $DD; fi
echo "## demo WITHOUT patch (expect pass)"; eval "$DEMOCMD" 2>&1 | grep -E "^test result|FAILED|error(\[|:)|panicked" | head -5
git checkout -q -- . && git clean -qfd -e target
