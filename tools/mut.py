#!/usr/bin/env python3
"""dev helper: apply one textual edit to /repo, run a check, revert (git checkout).
usage: mut.py <PID> <file> <old> <new> [<file> <old> <new> ...]   (first occurrence only, or @N: prefix on old to pick N-th)
"""
import subprocess, sys, os, re
pid = sys.argv[1]
edits = sys.argv[2:]
assert len(edits) % 3 == 0
REPO = "/repo"
st = subprocess.run(["git", "-C", REPO, "status", "--porcelain"], capture_output=True, text=True).stdout
assert not [l for l in st.splitlines() if not l.startswith("??")], "repo dirty: " + st
try:
    for i in range(0, len(edits), 3):
        f, old, new = edits[i:i+3]
        p = os.path.join(REPO, f)
        s = open(p).read()
        n = 1
        m = re.match(r"@(\d+):", old)
        if m:
            n = int(m.group(1)); old = old[m.end():]
        idx = -1
        for _ in range(n):
            idx = s.find(old, idx + 1)
            assert idx >= 0, "pattern not found: %r in %s" % (old, f)
        s = s[:idx] + new + s[idx+len(old):]
        open(p, "w").write(s)
    r = subprocess.run(["/verif/check", pid], capture_output=True, text=True)
    out = r.stdout + r.stderr
    lines = [l for l in out.splitlines() if l.startswith("  violation") or l.startswith("VIOLATION") or l.startswith("INFRA") or l.startswith("OK ") or l.startswith("    ")]
    print("\n".join(lines[:30]))
    print("exit", r.returncode)
finally:
    subprocess.run(["git", "-C", REPO, "checkout", "--", "."], check=True)
